"""Share algebra of the three-party sharded shuffle, decided from the MIR expression trees (no execution).

The three role functions h1/h2/h3_shuffle_for_shard are interpreted *symbolically* over GF(2)-linear forms:
the input is the replicated sharing (s1,s2) / (s2,s3) / (s3,s1); a mask drawn from the randomness shared by a pair
of helpers under a step is one symbol, a table carries the sequence of (step, pair) permutations applied to it,
messages are matched by (step, sender, receiver).  The interpreter knows the repository's shuffle primitives
(mask_and_shuffle, send_all / recv_all, channel send / receive, PRSS generate / generate_one_side, Shuffleable::new /
left / right, `+`), follows closures, async blocks and crate-local helper functions by evaluating their return
expressions, and treats await / ? / iterator plumbing as the identity.  It decides

  ALGEBRA   the three output tables reconstruct to the input row (all masks cancel), are a consistent replicated
            sharing (H1.right = H2.left, H2.right = H3.left, H3.right = H1.left), tables that are added carry the
            same permutation sequence, and the sequence consists of three permutations keyed by the three
            different helper pairs (so each helper is ignorant of one).

Assumptions (stated in the evidence): both holders of a pairwise PRSS key draw the same value for the same step and
index (C06 decides the index arithmetic), Role::peer is the ring H1 -> H2 -> H3 -> H1 (tested exhaustively by the
repository), rows keep their index between a sender's `send(i, ..)` and the receiver's `receive(i)`.
"""
import re
from vlib import facts as F, flow
from vlib.core import site_of

PEER = {("H1", "Left"): "H3", ("H1", "Right"): "H2", ("H2", "Left"): "H1", ("H2", "Right"): "H3", ("H3", "Left"): "H2", ("H3", "Right"): "H1"}
INPUT = {"H1": ("s1", "s2"), "H2": ("s2", "s3"), "H3": ("s3", "s1")}

PASS = re.compile(
    r"(Try::branch|Future::poll|Pin::<Ptr>::new_unchecked|Pin::<Ptr>::new|IntoFuture::into_future|IntoIterator::into_iter|Clone::clone|Borrow::borrow|"
    r"BorrowMut::borrow_mut|Deref::deref|DerefMut::deref_mut|AsRef::as_ref|ToOwned::to_owned|slice::<impl \[T\]>::(to_vec|iter)|Vec::<T, A>::(iter|as_slice|into_boxed_slice)|"
    r"Iterator::(cloned|copied|by_ref|fuse|peekable)|assert_send|Box::<T>::pin|Box::<T>::new|Instrument::instrument|Instrument::in_current_span|"
    r"FutureExt::boxed|Result::<T, E>::(unwrap|expect|map_err)|Option::<T>::(unwrap|expect)|From::from|Into::into|TryFutureExt::map_err|stream::iter|"
    r"std::iter::Iterator::collect|StreamExt::collect|TryStreamExt::try_collect|Iterator::rev_NOT)$")
INDEXY = re.compile(r"(Vec::<T, A>::len|ExactSizeIterator::len|NonZero::<T>::new|NonZero::<T>::get|RecordId::from|TotalRecords::specified|usize::try_from|TryFrom::try_from|TryInto::try_into)$")


class Unknown(Exception):
    pass


class Mismatch(Exception):
    pass


def T(perms, form):
    return ("T", perms, frozenset(form))


def unify(a, b):
    if a is None:
        return b
    if b is None or a == b:
        return a
    raise Mismatch(f"tables with different permutation histories are combined: {fmt_perms(a)} vs {fmt_perms(b)}")


def place_at(form, pos):
    """randomness drawn per index becomes tied to the row order of the table it is first added to"""
    return frozenset((("rand", s[1], s[2], pos) if s[0] == "rand" and s[3] is None else s) for s in form)


def xor(a, b):
    if a[0] != "T" or b[0] != "T":
        raise Unknown(f"`+` on {a[0]} and {b[0]}")
    p = unify(a[1], b[1])
    fa, fb = a[2], b[2]
    if p is not None:
        fa, fb = place_at(fa, p), place_at(fb, p)
    return T(p, fa ^ fb)


def fmt_sym(s):
    if s[0] == "in":
        return s[1]
    if s[0] == "rand":
        return f"r[{'/'.join(s[1])}|{''.join(sorted(s[2]))}{'' if s[3] is None else '@' + str(len([x for x in s[3] if x[0] == 'perm']))}]"
    if s[0] == "msg":
        return f"msg[{'/'.join(s[1][0])} {s[1][1]}->{s[1][2]}]"
    return str(s)


def fmt_form(f):
    return " + ".join(sorted(fmt_sym(s) for s in f)) or "0"


def fmt_perms(p):
    if p is None:
        return "(positional)"
    return "[" + ", ".join(f"{k}:{'/'.join(st)}|{''.join(sorted(pr))}" for k, st, pr in p) + "]"


class Frame:
    def __init__(self, b, args, upvars):
        self.b, self.args, self.upvars = b, args, upvars
        self.effects = {}      # expression -> function applied to its value (in-place updates such as slice.shuffle)
        self.live = None       # blocks reachable when switches on known Direction / Role values take their arm

    def __iter__(self):
        return iter((self.b, self.args, self.upvars))


def peel_pass(e):
    while e[0] == "call" and PASS.search(e[1]) and e[2]:
        e = e[2][0]
    return e


class Interp:
    def __init__(self, facts, role, messages):
        self.facts = facts
        self.role = role
        self.inbox = messages          # key -> value, from the previous pass
        self.sent = {}                 # key -> value, this pass
        self.words = []                # (kind, steps, peer)
        self.depth = 0
        self.conflicts = []

    # ---- helpers -------------------------------------------------------------------------
    def pair(self, d):
        return frozenset((self.role, PEER[(self.role, d)]))

    def want(self, v, kind, what):
        if v[0] != kind:
            raise Unknown(f"{what}: expected {kind}, got {v[0]}")
        return v

    def send(self, steps, to, val):
        key = (steps, self.role, to)
        if key in self.sent and self.sent[key] != val:
            self.conflicts.append(key)
        self.sent[key] = val

    def recv(self, steps, frm):
        key = (steps, frm, self.role)
        if key in self.inbox:
            return self.inbox[key]
        return T(None, {("msg", key)})

    def project(self, v, names):
        names = list(names)
        while names:
            n = names.pop(0)
            if isinstance(n, str) and n.startswith("as:"):
                if names and str(names[0]) == "0" and n[3:] in ("Ready", "Continue", "Break", "Ok", "Err", "Some"):
                    names.pop(0)      # payload of a std wrapper (wrappers are transparent here)
                continue
            if v[0] == "tuple":
                try:
                    v = v[1][int(n)]
                except (ValueError, IndexError):
                    raise Unknown(f"field {n} of a tuple")
                continue
            if v[0] in ("ctx", "idx", "chan", "prss", "unit", "role", "dir"):
                continue        # fields of contexts / indices are not tracked
            raise Unknown(f"projection {n} of {v[0]}")
        return v

    # ---- functions / closures ------------------------------------------------------------
    def returns_of(self, b):
        """expressions assigned to the return place on normal (non-`?`) exits"""
        out = []
        for bb, idx, d in b.defs().get(0, []):
            if idx == "t":
                if d["k"] == "call":
                    fn = F.callee(d)[0] or ""
                    if fn.endswith("FromResidual::from_residual"):
                        continue
                    out.append((bb, ("call", fn, tuple(flow.expr_of(b, a, max_depth=200) for a in d["args"]))))
                continue
            k = d["k"]
            if k == "agg":
                if d.get("adt") == "std::result::Result" and d.get("vn") == "Err":
                    continue
                tag = (d.get("adt"), d.get("vn")) if d["ak"] == "adt" else ((d["ak"], d["def"]) if d.get("def") else d["ak"])
                out.append((bb, ("agg", tag, tuple(flow.expr_of(b, o, max_depth=200) for o in d["ops"]))))
            elif k == "use":
                out.append((bb, flow.expr_of(b, d["o"], max_depth=200)))
            elif k in ("ref", "cfd"):
                out.append((bb, flow._expr_place(b, d["p"], 0, 200)))
            else:
                raise Unknown(f"return value of {b.path} built by `{k}`")
        return out

    def run_body(self, path, args, upvars):
        b = self.facts.bodies.get(path)
        if b is None:
            raise Unknown(f"no body for {path}")
        self.depth += 1
        if self.depth > 12:
            raise Unknown(f"call depth exceeded at {path}")
        try:
            frame = Frame(b, args, upvars)
            dom = None
            # effects: sends and in-place permutations that are statements of this body
            for bb, t in b.calls():
                fn = F.callee(t)[0] or ""
                if re.search(r"(ShuffleContext::send_all|ShuffleContext::send_word|ShuffleContext::recv_word)$", fn) or (fn.endswith("::send") and "gateway" in fn):
                    self.eval(("call", fn, tuple(flow.expr_of(b, a, max_depth=200) for a in t["args"])), frame)
                elif fn.endswith("SliceRandom::shuffle"):
                    target = peel_pass(flow.expr_of(b, t["args"][0], max_depth=200))
                    rng = self.eval(flow.expr_of(b, t["args"][1], max_depth=200), frame)
                    if rng[0] != "rng":
                        raise Unknown(f"slice.shuffle with a generator that is not a side of Context::prss_rng ({rng[0]})")
                    dom = dom or b.dominators()
                    if not all(flow.dominates(dom, bb, rb) for rb, _ in self.returns_of(b)):
                        raise Mismatch(f"the local shuffle in {b.path} does not happen on every path to the return")
                    frame.effects[target] = (lambda r: (lambda v: T((v[1] or ()) + (("perm", r[1], r[2]),), v[2]) if v[0] == "T" else v))(rng)
            # a table built by `let mut t = Vec::with_capacity(n); for i in 0..n { t.push(row(i)) }` is the table of row(i):
            # exactly one push on that vector, inside a loop, and no other call that takes it mutably
            pushes = {}
            for bb, t in b.calls():
                fn = F.callee(t)[0] or ""
                if re.search(r"Vec::<T(, A)?>::push$", fn):
                    target = peel_pass(flow.expr_of(b, t["args"][0], max_depth=200))
                    if target[0] == "call" and re.search(r"Vec::<T>::(new|with_capacity)$", target[1]):
                        pushes.setdefault(target, []).append((bb, t))
            for target, lst in pushes.items():
                bb, t = lst[0]
                in_loop = any(bb in b.reachable(x) for x in b.succs(bb))
                if len(lst) == 1 and in_loop:
                    frame.effects[target] = (lambda e_: (lambda v: self.eval(e_, frame)))(flow.expr_of(b, t["args"][1], max_depth=200))
            rets = self.returns_of(b)
            vals = []
            for bb, e in rets:
                v = self.eval(e, frame)
                vals.append((bb, v))
            return vals
        finally:
            self.depth -= 1

    def pick(self, vals, path):
        """one value out of several normal returns: early returns of an empty table are set aside"""
        real = [(bb, v) for bb, v in vals if not self.is_empty(v)]
        self.early = getattr(self, "early", []) + [(path, bb) for bb, v in vals if self.is_empty(v)]
        if len(real) != 1:
            raise Unknown(f"{path} has {len(real)} non-empty normal returns")
        return real[0][1]

    def is_empty(self, v):
        return v[0] == "empty" or (v[0] == "tuple" and v[1] and v[1][0][0] == "empty")

    def apply(self, clo, params):
        kind, path, capt = clo[1], clo[2], clo[3]
        b = self.facts.bodies.get(path)
        if b is None:
            raise Unknown(f"no body for closure {path}")
        upvars = {}
        for i, v in enumerate(capt):
            n = flow.upvar_name(b, i)
            if n is not None:
                upvars[n] = v
        args = {i + 2: p for i, p in enumerate(params)}
        return self.pick(self.run_body(path, args, upvars), path)

    def force(self, v):
        while v[0] == "clo" and v[1] == "coroutine":
            v = self.apply(v, [])
        return v

    def call_fn(self, fn, argv):
        b = self.facts.bodies.get(fn)
        if b is None:
            raise Unknown(f"call to {fn} (no body, not a known primitive)")
        args = {i + 1: a for i, a in enumerate(argv)}
        return self.pick(self.run_body(fn, args, {}), fn)

    # ---- expressions ---------------------------------------------------------------------
    def eval(self, e, frame):
        v = self.eval0(e, frame)
        if frame.effects and e in frame.effects:
            v = frame.effects[e](v)
        return v

    def live_blocks(self, frame):
        """blocks reachable when every switch on a Direction / Role value known to the interpreter takes its arm"""
        if frame.live is None:
            b = frame.b
            avoid = set()
            for bb in sorted(b.live_blocks()):
                t = b.term(bb)
                if t["k"] != "switch":
                    continue
                e = flow.expr_of(b, t["o"], max_depth=200)
                if e[0] != "disc":
                    continue
                try:
                    frame.live = set(b.live_blocks())      # re-entrancy guard while evaluating the scrutinee
                    v = self.eval0(e[1], frame)
                except (Unknown, Mismatch):
                    continue
                finally:
                    frame.live = None
                adt = {"dir": "helpers::Direction", "role": "helpers::Role"}.get(v[0])
                if adt is None:
                    continue
                discr = {x["name"]: str(x["discr"]) for x in self.facts.adts[adt]["variants"]}.get(v[1])
                ts = t.get("ts") or []
                taken = [tg for val, tg in ts if str(val) == discr]
                if len(taken) == 1:
                    avoid |= {tg for val, tg in ts if tg != taken[0]}
            frame.live = b.reachable(0, avoid=frozenset(avoid))
        return frame.live

    def eval0(self, e, frame):
        b, args, upvars = frame
        k = e[0]
        if k == "upvar":
            if e[1] not in upvars:
                raise Unknown(f"captured variable {e[1]} in {b.path}")
            return self.project(upvars[e[1]], e[2:])
        if k == "arg":
            if e[1] not in args:
                raise Unknown(f"argument {e[1]} of {b.path}")
            return self.project(args[e[1]], e[2:])
        if k == "proj":
            return self.project(self.eval(e[1], frame), e[2:])
        if k in ("cast", "un"):
            return self.eval(e[2], frame)
        if k == "fn":
            return ("fnitem", e[1])
        if k in ("const", "static", "bin", "disc", "len"):
            return ("idx",)
        if k == "agg":
            tag = e[1]
            if isinstance(tag, tuple) and tag[0] in ("closure", "coroutine", "coroutine_closure"):
                return ("clo", tag[0], tag[1], tuple(self.eval(o, frame) for o in e[2]))
            if tag == "tuple":
                if not e[2]:
                    return ("unit",)
                return ("tuple", tuple(self.eval(o, frame) for o in e[2]))
            if isinstance(tag, tuple):
                adt, vn = tag
                if adt == "helpers::Direction":
                    return ("dir", vn)
                if adt == "helpers::Role":
                    return ("role", vn)
                if adt in ("std::result::Result", "std::option::Option", "std::task::Poll", "std::ops::ControlFlow") and len(e[2]) == 1:
                    return self.eval(e[2][0], frame)
                if adt == "std::ops::Range":
                    return ("idx",)
                if adt and adt.endswith("IntermediateShuffleMessages"):
                    return ("tuple", tuple(self.eval(o, frame) for o in e[2]))
                if adt and adt.endswith("Step") and not e[2]:
                    return ("step", vn)
            return ("idx",) if not e[2] else ("tuple", tuple(self.eval(o, frame) for o in e[2]))
        if k == "call":
            return self.call(e[1], e[2], frame)
        if k == "place":
            live = self.live_blocks(frame)
            ds = [(bb, idx, d) for bb, idx, d in b.defs().get(e[1], []) if bb in live]
            if len(ds) == 1 and ds[0][1] != "t" and ds[0][2]["k"] == "use":
                return self.project(self.eval(flow.expr_of(b, ds[0][2]["o"], max_depth=200), frame), e[2:])
            raise Unknown(f"local {e[1]} of {b.path} has {len(ds)} reachable definitions")
        raise Unknown(f"expression kind {k}")

    def call(self, fn, xs, frame):
        ev = lambda i: self.eval(xs[i], frame)
        if fn.endswith("Context::narrow"):
            c = self.want(ev(0), "ctx", "narrow")
            s = ev(1)
            return ("ctx", c[1] + ((s[1] if s[0] == "step" else "?"),))
        if fn.endswith("Context::set_total_records") or fn.endswith("::set_active_work"):
            return self.want(ev(0), "ctx", fn)
        if fn.endswith("Context::role"):
            return ("role", self.role)
        if fn.endswith("Role::peer"):
            r, d = self.want(ev(0), "role", "peer"), self.want(ev(1), "dir", "peer")
            return ("role", PEER[(r[1], d[1])])
        if fn.endswith("Context::send_channel") or fn.endswith("Context::recv_channel"):
            c, r = self.want(ev(0), "ctx", fn), self.want(ev(1), "role", fn)
            return ("chan", "send" if "send_channel" in fn else "recv", c[1], r[1])
        if fn.endswith("Context::prss_rng"):
            c = self.want(ev(0), "ctx", "prss_rng")
            return ("tuple", (("rng", c[1], self.pair("Left")), ("rng", c[1], self.pair("Right"))))
        if fn.endswith("context::reshard_iter"):
            self.want(ev(0), "ctx", "reshard_iter")
            row, picker = self.want(ev(1), "T", "reshard_iter rows"), ev(2)
            if picker[0] != "clo":
                raise Unknown("reshard_iter with a shard picker that is not a closure")
            sh = self.apply(picker, [ev(0), ("idx",), row])
            if sh[0] != "shard":
                raise Unknown(f"the shard picker returns {sh[0]}, not ShardedContext::pick_shard(..)")
            return T((row[1] or ()) + (("pick", sh[1], sh[2]),), row[2])
        if fn.endswith("ShardedContext::pick_shard"):
            c, d = self.want(ev(0), "ctx", "pick_shard"), self.want(ev(2), "dir", "pick_shard")
            return ("shard", c[1], self.pair(d[1]))
        if fn.endswith("Context::prss"):
            return ("prss", self.want(ev(0), "ctx", "prss")[1])
        if fn.endswith("::send") and xs and self.peek_kind(xs[0], frame) == "chan":
            ch = ev(0)
            self.send(ch[2], ch[3], self.want(ev(2), "T", "channel send"))
            return ("unit",)
        if fn.endswith("::receive") and xs and self.peek_kind(xs[0], frame) == "chan":
            ch = ev(0)
            return self.recv(ch[2], ch[3])
        if fn.endswith("future::try_join") or fn.endswith("future::join"):
            return ("tuple", tuple(self.force(ev(i)) for i in range(len(xs))))
        if fn.endswith("SeqJoin::try_join") or fn.endswith("SeqJoin::parallel_join") or fn.endswith("seq_join::seq_try_join_all") or fn.endswith("future::try_join_all"):
            return self.force(ev(len(xs) - 1))
        if fn.endswith("Iterator::enumerate"):
            return ("tuple", (("idx",), ev(0)))
        if fn.endswith("Iterator::map") or fn.endswith("StreamExt::map"):
            row, clo = ev(0), ev(1)
            if clo[0] == "fnitem":
                return self.call_fn(clo[1], [row])
            if clo[0] != "clo":
                raise Unknown("map with an argument that is neither a closure nor a function")
            return self.apply(clo, [row])
        if fn.endswith("Iterator::zip"):
            return ("tuple", (ev(0), ev(1)))
        if fn.endswith("ShuffleContext::send_all"):
            c, row, d = self.want(ev(0), "ctx", "send_all"), self.want(ev(1), "T", "send_all data"), self.want(ev(2), "dir", "send_all")
            self.send(c[1], PEER[(self.role, d[1])], row)
            return ("unit",)
        if fn.endswith("ShuffleContext::recv_all"):
            c, d = self.want(ev(0), "ctx", "recv_all"), self.want(ev(1), "dir", "recv_all")
            return self.recv(c[1], PEER[(self.role, d[1])])
        if fn.endswith("ShuffleContext::send_word"):
            c, d = self.want(ev(0), "ctx", "send_word"), self.want(ev(1), "dir", "send_word")
            self.words.append(("send", c[1], PEER[(self.role, d[1])]))
            return ("unit",)
        if fn.endswith("ShuffleContext::recv_word"):
            c, d = self.want(ev(0), "ctx", "recv_word"), self.want(ev(1), "dir", "recv_word")
            self.words.append(("recv", c[1], PEER[(self.role, d[1])]))
            return ("idx",)
        if fn.endswith("SharedRandomness::generate_one_side"):
            p, d = self.want(ev(0), "prss", "generate_one_side"), self.want(ev(2), "dir", "generate_one_side")
            return T(None, {("rand", p[1], self.pair(d[1]), None)})
        if fn.endswith("SharedRandomness::generate"):
            p = self.want(ev(0), "prss", "generate")
            return ("tuple", (T(None, {("rand", p[1], self.pair("Left"), None)}), T(None, {("rand", p[1], self.pair("Right"), None)})))
        if fn.endswith("Shuffleable::new"):
            return ("share", self.want(ev(0), "T", "Shuffleable::new left"), self.want(ev(1), "T", "Shuffleable::new right"))
        if fn.endswith("Shuffleable::left"):
            return self.want(ev(0), "share", "left()")[1]
        if fn.endswith("Shuffleable::right"):
            return self.want(ev(0), "share", "right()")[2]
        if fn.endswith("ops::Add::add") or fn.endswith("ops::BitXor::bitxor") or fn.endswith("ops::Sub::sub"):
            return xor(ev(0), ev(1))
        if fn.endswith("Vec::<T>::new") or fn.endswith("Vec::<T>::with_capacity") or fn.endswith("iter::empty"):
            return ("empty",)
        if INDEXY.search(fn):
            return ("idx",)
        if PASS.search(fn):
            if not xs:
                return ("unit",)
            return self.force(ev(0)) if fn.endswith("Future::poll") else ev(0)
        if fn.endswith("future::get_context"):
            return ("unit",)
        if fn in self.facts.bodies:
            v = self.call_fn(fn, [ev(i) for i in range(len(xs))])
            return v
        raise Unknown(f"call to {fn}")

    def peek_kind(self, e, frame):
        try:
            return self.eval(e, frame)[0]
        except (Unknown, Mismatch):
            return None


def run_roles(facts):
    """fixpoint over the three role functions; returns {role: (value | None, error | None, Interp)}"""
    base = "protocol::ipa_prf::shuffle::sharded::"
    messages = {}
    res = {}
    for _ in range(5):
        new = {}
        res = {}
        for role, fn in (("H1", "h1_shuffle_for_shard"), ("H2", "h2_shuffle_for_shard"), ("H3", "h3_shuffle_for_shard")):
            it = Interp(facts, role, messages)
            l, r = INPUT[role]
            share = ("share", T((), {("in", l)}), T((), {("in", r)}))
            try:
                v = it.force(it.call_fn(base + fn, [("ctx", ()), share]))
                res[role] = (v, None, it)
            except (Unknown, Mismatch) as ex:
                res[role] = (None, ex, it)
            new.update(it.sent)
        if new == messages:
            break
        messages = new
    return res, messages


def algebra(ctx, facts, rule="ALGEBRA"):
    ctx.rule(f"{rule}: the role functions h1/h2/h3_shuffle_for_shard, interpreted symbolically over GF(2)-linear forms with one symbol per pairwise mask (step, helper pair, position in the permutation history) and messages matched by (step, sender, receiver): the three outputs XOR to s1+s2+s3 (every mask cancels), neighbouring components are equal (replicated sharing), only tables with equal permutation histories are added, and the history of the output consists of three permutations keyed by the three different helper pairs")
    ctx.assume("both holders of a pairwise PRSS key draw the same value under the same step and index; Role::peer is the ring H1->H2->H3->H1; a row keeps its index between send(i) and receive(i); the pairwise permutation is the same function on both holders (same narrowed context, same side of the shared RNG; MASK-shape decides the side selection)")
    base = "protocol::ipa_prf::shuffle::sharded::"
    if not all((base + f) in facts.bodies for f in ("h1_shuffle_for_shard", "h2_shuffle_for_shard", "h3_shuffle_for_shard")):
        return ctx.missing(rule, "h1/h2/h3_shuffle_for_shard")
    old = flow.CLOSURE_DEFS
    flow.CLOSURE_DEFS = True
    try:
        res, messages = run_roles(facts)
    finally:
        flow.CLOSURE_DEFS = old
    ctx.count(bodies=sum(len(facts.tree(base + f)) for f in ("h1_shuffle_for_shard", "h2_shuffle_for_shard", "h3_shuffle_for_shard")))
    outs = {}
    root_cause = any(isinstance(res[r][1], Unknown) for r in res)
    for role in ("H1", "H2", "H3"):
        v, err, it = res[role]
        if root_cause and not isinstance(err, Unknown):
            continue        # whatever the other roles show is a consequence of the missing messages
        b = facts.bodies[base + role.lower() + "_shuffle_for_shard"]
        if err is not None:
            kind = "inconsistent" if isinstance(err, Mismatch) else "not interpretable"
            ctx.ob(rule, f"{role}:interpreted", False, f"{kind}: {err}", site_of(b))
            continue
        ok = v[0] == "tuple" and len(v[1]) == 2 and v[1][0][0] == "share"
        ctx.ob(rule, f"{role}:interpreted", ok, f"returns (table of shares, intermediate messages); {len(it.sent)} message(s) sent" if ok else f"the role function does not return (Vec<S>, messages): {v[0]}", site_of(b))
        if ok:
            outs[role] = v[1][0]
        if it.conflicts:
            ctx.ob(rule, f"{role}:one-value-per-channel", False, f"two different values are sent on {it.conflicts[0]}", site_of(b))
    if len(outs) < 3:
        return
    final = outs["H2"][2][1]
    def form(role, side):
        t = outs[role][1 if side == "l" else 2]
        # randomness indexed by the position in the output table: same thing whether added to the output or kept alone
        return ("T", t[1], frozenset((("rand", s[1], s[2], None) if s[0] == "rand" and s[3] == final else s) for s in t[2]))
    pend = [s for r in outs for side in "lr" for s in form(r, side)[2] if s[0] == "msg"]
    ctx.ob(rule, "messages-matched", not pend, "every receive has a matching send (step, sender, receiver)" if not pend else f"a receive has no matching send: {fmt_sym(pend[0])} (step or direction of a transfer differs between the two ends)")
    if pend:
        return
    total = form("H1", "l")[2] ^ form("H1", "r")[2] ^ form("H2", "r")[2]
    want = frozenset({("in", "s1"), ("in", "s2"), ("in", "s3")})
    ctx.ob(rule, "reconstructs-to-input", total == want, "H1.left + H1.right + H2.right = s1 + s2 + s3" if total == want else f"the output reconstructs to {fmt_form(total)} instead of s1 + s2 + s3 (a mask does not cancel or a share is dropped/duplicated)")
    for (ra, sa), (rb, sb) in ((("H1", "r"), ("H2", "l")), (("H2", "r"), ("H3", "l")), (("H3", "r"), ("H1", "l"))):
        a, b_ = form(ra, sa), form(rb, sb)
        ok = a[2] == b_[2]
        ctx.ob(rule, f"replicated:{ra}.{sa}={rb}.{sb}", ok, fmt_form(a[2]) if ok else f"{ra}.{sa} = {fmt_form(a[2])} but {rb}.{sb} = {fmt_form(b_[2])}: the output is not a consistent replicated sharing")
    pa, pb = form("H2", "r")[1], form("H3", "l")[1]
    okp = pa is not None and pa == pb and len(pa) == 6
    if okp:
        rounds = [(pa[i], pa[i + 1]) for i in (0, 2, 4)]
        okp = all(a[0] == "pick" and b_[0] == "perm" and a[2] == b_[2] for a, b_ in rounds) and len({a[2] for a, _ in rounds}) == 3
    ctx.ob(rule, "three-pairwise-permutations", okp, fmt_perms(pa) if okp else f"permutation history of the output is {fmt_perms(pa)} / {fmt_perms(pb)}: expected three rounds of (shard pick, local permutation), each keyed by the randomness of one helper pair, the three pairs all different")
    # the intermediate tables kept for verification: x1 ~ y1 and x2 ~ y2 must differ exactly by the (permuted) row
    inter = {r: res[r][0][1][1] for r in ("H1", "H2", "H3")}
    try:
        x1, x2, (y1, y2) = inter["H1"][1][0], inter["H2"][1][0], inter["H3"][1][:2]
        for name, a, b_, n in (("x1~y1", x1, y1, 1), ("x2~y2", x2, y2, 2)):
            ok = a[0] == "T" and b_[0] == "T" and (a[2] ^ b_[2]) == want and a[1] == b_[1] and a[1] is not None and len(a[1]) == 2 * n
            ctx.ob(rule, f"verification-pair:{name}", ok, f"{name.replace('~', ' + ')} = s1 + s2 + s3 under {fmt_perms(a[1])}" if ok else f"the tables kept for verification do not add up to the permuted row: {fmt_form(a[2] ^ b_[2]) if a[0] == b_[0] == 'T' else '?'} under {fmt_perms(a[1]) if a[0] == 'T' else '?'} / {fmt_perms(b_[1]) if b_[0] == 'T' else '?'} (an honest run would fail verification, or tampering would go unnoticed)")
    except (IndexError, TypeError, ValueError):
        ctx.ob(rule, "verification-pair", False, "IntermediateShuffleMessages does not carry H1{x1}, H2{x2}, H3{y1, y2}")
    return res


# ---------------------------------------------------------------------------------------------
def edges(ctx, facts, rule="TRANSFER"):
    """Whole-table transfers and the empty-table paths: nothing is lost or truncated silently."""
    from rules import malsec
    ctx.rule(f"{rule}: recv_all pushes every received value, ends only on Error::EndOfStream and returns any other receive error; send_all sends item i under record id i, propagates every send error and closes the channel at record id = number of items before returning Ok; H2 reports len(x3) to H1 before any return and H1 builds exactly that many rows; H2 / H3 return an empty table only when their last table is empty; pick_shard is its draw modulo the shard count")
    base = "protocol::ipa_prf::shuffle::sharded::"
    # ---- recv_all
    b = malsec.async_body(facts, base + "ShuffleContext::recv_all")
    if b is None:
        ctx.missing(rule, "ShuffleContext::recv_all")
    else:
        ctx.count(bodies=1)
        dom = b.dominators()
        rc = malsec.settled_calls(b, r"::receive$")
        pushes = flow.find_calls(b, re.compile(r"Vec::<T, A>::push$"))
        incs = flow.find_calls(b, re.compile(r"AddAssign::add_assign$"))
        ok = len(rc) == 1 and rc[0][2] is not None
        if not ok:
            ctx.ob(rule, "recv_all:one-awaited-receive", False, "recv_all does not await exactly one receive per iteration", site_of(b))
        else:
            rbb, rt, st = rc[0]
            from rules.C17 import variant_arms
            res_arms = [a for a in variant_arms(b, "std::result::Result", facts) if flow.dominates(dom, st["ready"], a[0])]
            okb = res_arms[0][2].get("Ok") if res_arms else None
            errb = res_arms[0][2].get("Err") if res_arms else None
            err_arms = [a for a in variant_arms(b, "helpers::error::Error", facts) if errb is not None and flow.dominates(dom, errb, a[0]) and a[0] != res_arms[0][0]]
            # Ok arm: the value is pushed, the record id advances by one, then the loop goes round
            pv = [p for p in pushes if okb is not None and flow.dominates(dom, okb, p[0]) and malsec.is_value_of(flow.expr_of(b, p[1]["args"][1], max_depth=80), r"::receive$")]
            ctx.ob(rule, "recv_all:pushes-received-value", len(pv) == 1, "each received value is appended once" if len(pv) == 1 else "the received value is not appended exactly once on the Ok arm (rows lost or duplicated)", site_of(b, pv[0][0]) if pv else site_of(b, rbb))
            iv = [i for i in incs if str(flow.expr_of(b, i[1]["args"][1])) in ("('const', 1)",) and rbb in b.reachable(i[0])]
            on_ok = [i for i in iv if pv and (flow.dominates(dom, pv[0][0], i[0]) or flow.dominates(dom, okb, i[0]))]
            ctx.ob(rule, "recv_all:next-record-id", len(on_ok) == 1, "rid += 1 between two receives" if len(on_ok) == 1 else "the record id is not advanced by exactly one after a successful receive", site_of(b, iv[0][0]) if iv else site_of(b, rbb))
            # Err arm: only EndOfStream ends the table; everything else is returned as an error
            oks = set(malsec.ok_blocks(b))
            good = False
            detail = "no match on the receive error"
            if errb is not None and err_arms:
                arms = err_arms[0][2]
                eos = arms.get("EndOfStream")
                others = {t for n, t in arms.items() if n != "EndOfStream"}
                swt = b.term(err_arms[0][0])
                if swt.get("else") is not None and swt["else"] not in arms.values():
                    others.add(swt["else"])
                leak = [t for t in others if t != eos and (oks & b.reachable(t, avoid=frozenset({rbb})))]
                loop_again = [t for t in others if t != eos and rbb in b.reachable(t)]
                good = eos is not None and bool(oks & b.reachable(eos)) and not leak and not loop_again
                detail = "only Error::EndOfStream ends the table; other receive errors are returned" if good else ("a receive error other than EndOfStream ends the table with Ok: a truncated table is accepted" if leak else ("a receive error is skipped and the loop continues" if loop_again else "EndOfStream does not end the table with Ok"))
            elif errb is not None:
                # no variant test at all: does the Err arm reach Ok?
                good = not (oks & b.reachable(errb, avoid=frozenset({rbb})))
                detail = "every receive error is returned" if good else "every receive error (not only EndOfStream) ends the table with Ok: a truncated table is accepted"
                good = False if not good else good
            ctx.ob(rule, "recv_all:ends-only-on-end-of-stream", good, detail, site_of(b, err_arms[0][0]) if err_arms else site_of(b, rbb))
    # ---- send_all
    outer = facts.bodies.get(base + "ShuffleContext::send_all")
    b = malsec.async_body(facts, base + "ShuffleContext::send_all")
    if b is None or outer is None:
        ctx.missing(rule, "ShuffleContext::send_all")
    else:
        ctx.count(bodies=2)
        dom = b.dominators()
        cl = malsec.settled_calls(b, r"::close$")
        oks = malsec.ok_blocks(b)
        okc = len(cl) == 1 and cl[0][2] is not None and bool(oks) and all(flow.dominates(dom, cl[0][2]["ready"], o) for o in oks)
        ctx.ob(rule, "send_all:closes-before-ok", okc, "the channel is closed (awaited) before Ok" if okc else "send_all can return Ok without closing the channel: the receiver's recv_all never ends", site_of(b, cl[0][0]) if cl else site_of(b))
        if cl:
            ce = flow.expr_of(b, cl[0][1]["args"][1], max_depth=60)
            # close(RecordId::from(sz)), sz = shares.len() captured from the outer function
            okv = ce[0] == "call" and ce[1].endswith("From::from") and ce[2] and ce[2][0][0] == "upvar"
            src = None
            if okv:
                for bb, idx, s_ in outer.iter_assigns():
                    r_ = s_["r"]
                    if r_["k"] == "agg" and r_.get("ak") == "coroutine":
                        names = [flow.upvar_name(b, i) for i in range(len(r_["ops"]))]
                        if ce[2][0][1] in names:
                            src = flow.expr_of(outer, r_["ops"][names.index(ce[2][0][1])], max_depth=40)
            oksz = src is not None and src[0] == "call" and src[1].endswith("ExactSizeIterator::len")
            ctx.ob(rule, "send_all:closes-at-item-count", bool(okv and oksz), "close(RecordId::from(shares.len()))" if okv and oksz else f"the channel is not closed at the number of items sent ({ce})", site_of(b, cl[0][0]))
        # item i is sent under record id i, errors propagate
        inner = [x for x in facts.tree(base + "ShuffleContext::send_all") if x.kind == "Closure" and not x.coroutine and flow.find_calls(x, re.compile(r"::send$"))]
        oki = False
        if len(inner) == 1:
            sb = inner[0]
            sc = flow.find_calls(sb, re.compile(r"::send$"))[0]
            rid, val = flow.expr_of(sb, sc[1]["args"][1]), flow.expr_of(sb, sc[1]["args"][2])
            oki = rid == ("call", "std::convert::From::from", (("arg", 2, 0),)) and val == ("arg", 2, 1)
        ctx.ob(rule, "send_all:item-i-under-record-i", oki, "send(RecordId::from(i), item_i) over enumerate()" if oki else "items are not sent under their own index", site_of(inner[0]) if inner else site_of(b))
        nx = malsec.settled_calls(b, r"StreamExt::next$")
        okq = False
        if nx and nx[0][2] is not None:
            seen, todo = set(), [nx[0][2]["ready"]]
            while todo:
                x = todo.pop()
                if x in seen or x == nx[0][0] or b.term(x)["k"] == "yield":
                    continue
                seen.add(x)
                todo.extend(b.succs(x))
            okq = any(x in seen for x, _ in flow.find_calls(b, re.compile(r"FromResidual::from_residual$")))
        ctx.ob(rule, "send_all:send-errors-propagate", okq, "every send result is `?`-checked" if okq else "send results are not checked: a failed send still ends with Ok", site_of(b))
    # ---- cardinality word and empty tables
    h1 = [x for x in facts.tree(base + "h1_shuffle_for_shard") if x.coroutine]
    h2 = [x for x in facts.tree(base + "h2_shuffle_for_shard") if x.coroutine and flow.find_calls(x, re.compile(r"ShuffleContext::send_word$"))]
    h3 = [x for x in facts.tree(base + "h3_shuffle_for_shard") if x.coroutine and flow.find_calls(x, re.compile(r"mask_and_shuffle$"))]
    if not (h1 and h2 and h3):
        return ctx.missing(rule, "role functions (cardinality word)")
    ctx.count(bodies=3)
    b2 = h2[0]
    dom2 = b2.dominators()
    sw = malsec.settled_calls(b2, r"ShuffleContext::send_word$")
    oks2 = malsec.ok_blocks(b2)
    okw = len(sw) == 1 and sw[0][2] is not None and bool(oks2) and all(flow.dominates(dom2, sw[0][2]["ready"], o) for o in oks2)
    ctx.ob(rule, "h2:size-reported-before-any-return", okw, "send_word(Cardinality) is awaited before every Ok return (also the empty one)" if okw else "H2 can return without telling H1 the size of its table: H1 waits forever (e.g. on an empty shard)", site_of(b2, sw[0][0]) if sw else site_of(b2))
    if sw:
        ve = flow.expr_of(b2, sw[0][1]["args"][2], max_depth=80)
        okl = ve[0] == "call" and ve[1].endswith("Vec::<T, A>::len") and malsec.is_value_of(ve[2][0], r"mask_and_shuffle$") and "Permute23" in str(ve)
        ctx.ob(rule, "h2:size-is-len-of-x3", okl, "the reported size is x3.len()" if okl else "the size reported to H1 is not the length of the last permuted table", site_of(b2, sw[0][0]))
    b1 = h1[0]
    rw = flow.find_calls(b1, re.compile(r"ShuffleContext::recv_word$"))
    okr = False
    for bb, idx, s_ in b1.iter_assigns():
        r_ = s_["r"]
        if r_["k"] == "agg" and r_.get("adt") == "std::ops::Range":
            lo, hi = (flow.expr_of(b1, o, max_depth=80) for o in r_["ops"])
            if lo == ("const", 0) and malsec.is_value_of(hi, r"ShuffleContext::recv_word$"):
                okr = True
    ctx.ob(rule, "h1:builds-reported-number-of-rows", okr and len(rw) == 1, "H1 draws rows 0..sz with sz received from H2" if okr and len(rw) == 1 else "H1's number of rows is not the size reported by H2", site_of(b1, rw[0][0]) if rw else site_of(b1))
    for name, bx, tab in (("h2", b2, "Permute23"), ("h3", h3[0], "Permute23")):
        domx = bx.dominators()
        empties = []
        for bb, idx, s_ in bx.iter_assigns():
            r_ = s_["r"]
            if s_["p"] == [0] and r_["k"] == "agg" and r_.get("vn") == "Ok":
                e = flow.expr_of(bx, r_["ops"][0], max_depth=12)
                if e[0] == "agg" and e[1] == "tuple" and e[2] and e[2][0][0] == "call" and e[2][0][1].endswith("Vec::<T>::new"):
                    empties.append(bb)
        good = True
        why = f"{len(empties)} empty-table return(s), each only when NonZeroUsize::new(len of the last table) is None"
        from rules.C17 import variant_arms
        opt = variant_arms(bx, "std::option::Option", facts)
        for eb in empties:
            guarded = False
            for swb, pl, arms in opt:
                e = flow.expr_of(bx, {"cp": pl}, max_depth=80)
                if arms.get("None") is not None and flow.dominates(domx, arms["None"], eb) and e[0] == "call" and e[1].endswith("NonZero::<T>::new") and e[2] and e[2][0][0] == "call" and e[2][0][1].endswith("Vec::<T, A>::len") and tab in str((malsec.value_source(e[2][0][2][0], r"mask_and_shuffle$") or ("", "", ("",)))[2][0]):
                    guarded = True
            if not guarded:
                good = False
                why = "an empty table is returned although the last permuted table need not be empty: rows are dropped"
        ctx.ob(rule, f"{name}:empty-return-only-if-empty", good, why, site_of(bx, empties[0]) if empties else site_of(bx))
    # ---- pick_shard
    ps = facts.bodies.get("protocol::context::ShardedContext::pick_shard")
    if ps is None:
        ctx.missing(rule, "ShardedContext::pick_shard")
    else:
        ctx.count(bodies=1)
        g = flow.find_calls(ps, re.compile(r"SharedRandomness::generate_one_side$"))
        okg = len(g) == 1 and flow.expr_of(ps, g[0][1]["args"][1]) == ("arg", 2) and flow.expr_of(ps, g[0][1]["args"][2]) == ("arg", 3)
        rem = False
        for bb, idx, s_ in ps.iter_assigns():
            r_ = s_["r"]
            if r_["k"] == "bin" and r_["op"] == "Rem":
                a, c = flow.expr_of(ps, r_["a"], max_depth=20), flow.expr_of(ps, r_["b"], max_depth=20)
                rem = "generate_one_side" in str(a) and "shard_count" in str(c)
        ctx.ob(rule, "pick_shard:draw-mod-shard-count", okg and rem, "pick_shard = generate_one_side(record_id, direction) % shard_count" if okg and rem else "pick_shard is not its own (record id, direction) draw reduced modulo the shard count (both holders of the key must pick the same existing shard)", site_of(ps))


# ---------------------------------------------------------------------------------------------
def tags(ctx, facts, rule="TAG"):
    """What each helper hashes for a row is <keys, (row words .., tag)> with the tag's coefficient fixed to ONE, so that
    for two tables differing by a validly tagged row the hashes agree (and otherwise differ except with 2^-32)."""
    from rules.C07 import Poly, ev, Unknown as EvUnknown
    from rules import malsec
    ctx.rule(f"{rule}: compute_and_hash_tags hashes, per row, fold(ZERO, acc + entry * key) over zip(words(row) ++ [tag], keys) with (row, tag) = split_row_and_tag(item) - the step closure is the polynomial acc + entry*key; reveal_keys returns the opened keys followed by ONE (the tag's coefficient) and opens key i under record id i")
    base = "protocol::ipa_prf::shuffle::malicious::"
    top = facts.bodies.get(base + "compute_and_hash_tags")
    c0 = facts.bodies.get(base + "compute_and_hash_tags::{closure#0}")
    c1 = facts.bodies.get(base + "compute_and_hash_tags::{closure#1}")
    if None in (top, c0, c1):
        ctx.missing(rule, "compute_and_hash_tags and its closures")
    else:
        ctx.count(bodies=3)
        # the per-row value, whatever way the sum is written (fold with the product inside, or map to the product and
        # then fold): composed symbolically for two (entry, key) items starting from the fold's initial value, it must be
        # entry1*key1 + entry2*key2
        old_cd = flow.CLOSURE_DEFS
        flow.CLOSURE_DEFS = True
        okp, why, okf = False, "no fold over the zipped (entry, key) pairs found", False
        step = c1
        try:
            fc = flow.find_calls(c1, re.compile(r"Iterator::fold$"))
            if len(fc) == 1:
                a = [flow.expr_of(c1, x, max_depth=12) for x in fc[0][1]["args"]]
                it = flow.strip_casts(a[0])
                mapb = None
                if it[0] == "call" and it[1].endswith("Iterator::map"):
                    mc = it[2][1]
                    mapb = facts.bodies.get(mc[1][1]) if mc[0] == "agg" and isinstance(mc[1], tuple) else None
                    it = flow.strip_casts(it[2][0])
                zipped = it[0] == "call" and it[1].endswith("Iterator::zip") and it[2][0] == ("arg", 2) and it[2][1][0] == "upvar"
                okf = zipped and a[1][0] == "const" and str(a[1][1]).endswith("::ZERO")
                sc = a[2]
                stepb = facts.bodies.get(sc[1][1]) if sc[0] == "agg" and isinstance(sc[1], tuple) else None
                if stepb is not None:
                    step = stepb
                    def apply(acc, ent, key):
                        if mapb is not None:
                            def mleaf(e):
                                if e[:3] in (("arg", 2, 0), ("arg", 2, "0")):
                                    return ent
                                if e[:3] in (("arg", 2, 1), ("arg", 2, "1")):
                                    return key
                                return None
                            x = ev(flow.expr_of(mapb, {"cp": [0]}, max_depth=12), mleaf)
                        def sleaf(e):
                            if e == ("arg", 2):
                                return acc
                            if mapb is not None:
                                return x if e == ("arg", 3) else None
                            if e[:3] in (("arg", 3, 0), ("arg", 3, "0")):
                                return ent
                            if e[:3] in (("arg", 3, 1), ("arg", 3, "1")):
                                return key
                            return None
                        return ev(flow.expr_of(stepb, {"cp": [0]}, max_depth=12), sleaf)
                    acc0 = Poly.var("acc0")
                    got = apply(apply(acc0, Poly.var("e1"), Poly.var("k1")), Poly.var("e2"), Poly.var("k2"))
                    want = acc0 + Poly.var("e1") * Poly.var("k1") + Poly.var("e2") * Poly.var("k2")
                    okp = got == want
                    why = "per-row value = initial + sum of entry * key" if okp else f"two fold steps give {dict(got)}, not acc + e1*k1 + e2*k2"
        except EvUnknown as ex:
            okp, why = False, f"cannot read the fold step ({ex})"
        finally:
            flow.CLOSURE_DEFS = old_cd
        ctx.ob(rule, "hash:fold-step", okp, why, site_of(step))
        ctx.ob(rule, "hash:fold-from-zero-over-zip(entries, keys)", okf, "fold(ZERO, ..) over zip(row entries, keys)" if okf else "the per-row value is not fold(ZERO, ..) over zip(row entries, keys): a constant offset or a missing key makes honest tables disagree / hides a change", site_of(c1, fc[0][0]) if len(fc) == 1 else site_of(c1))
        ch = flow.find_calls(c0, re.compile(r"Iterator::chain$"))
        okc = False
        if len(ch) == 1:
            a = [flow.expr_of(c0, x, max_depth=14) for x in ch[0][1]["args"]]
            sp = ("call", base + "split_row_and_tag", (("arg", 2),))
            w = a[0]
            while w[0] == "call" and re.search(r"(IntoIterator::into_iter|Result::<T, E>::(unwrap|expect))$", w[1]):
                w = w[2][0]
            words = w if w[0] == "call" and w[1].endswith("TryInto::try_into") else None
            okc = words is not None and words[2][0][:2] == ("proj", sp) and str(words[2][0][2]) == "0" and a[1] == ("call", "std::iter::once", (("proj", sp, 1),))
        ctx.ob(rule, "hash:entries=row-words-then-tag", okc, "words(row).chain(once(tag)), (row, tag) = split_row_and_tag(item)" if okc else "the hashed entries are not the row's words followed by its tag", site_of(c0, ch[0][0]) if ch else site_of(c0))
        r = flow.expr_of(top, {"cp": [0]}, max_depth=12)
        okr = r[0] == "call" and r[1].endswith("compute_possibly_empty_hash") and r[2][0][0] == "call" and r[2][0][1].endswith("Iterator::map") and r[2][0][2][0][0] == "call" and r[2][0][2][0][1].endswith("Iterator::map")
        ctx.ob(rule, "hash:every-row", okr, "hash over the per-row values of every item" if okr else "not every item's value enters the hash", site_of(top))
    # reveal_keys
    rk = next((b for b in facts.tree(base + "reveal_keys") if b.coroutine and flow.find_calls(b, re.compile(r"SeqJoin::parallel_join$"))), None)
    if rk is None:
        ctx.missing(rule, "reveal_keys")
        return
    ctx.count(bodies=2)
    ch = flow.find_calls(rk, re.compile(r"Iterator::chain$"))
    okk = False
    if not ch:
        # `let mut keys = parallel_join(..).await?; keys.push(ONE)`: the returned vector is the opened keys, and the only
        # thing done to it afterwards is one push of ONE
        ps = [(bb, t) for bb, t in rk.calls() if re.search(r"Vec::<T(, A)?>::push$", F.callee(t)[0] or "")]
        if len(ps) == 1:
            v0 = flow.expr_of(rk, ps[0][1]["args"][0], max_depth=30)
            one = flow.expr_of(rk, ps[0][1]["args"][1], max_depth=6)
            muts = [t for bb, t in rk.calls() if re.search(r"Vec::<T(, A)?>::(insert|remove|pop|truncate|clear|swap_remove|retain|reverse|sort\w*|drain|dedup\w*|extend\w*|append)$", F.callee(t)[0] or "")]
            okk = malsec.value_source(v0, r"SeqJoin::parallel_join$") is not None and one[0] == "const" and str(one[1]).endswith("::ONE") and not muts
    if len(ch) == 1:
        a = [flow.expr_of(rk, x, max_depth=30) for x in ch[0][1]["args"]]
        okk = malsec.value_source(a[0], r"SeqJoin::parallel_join$") is not None and a[1][0] == "call" and a[1][1].endswith("iter::once") and a[1][2][0][0] == "const" and str(a[1][2][0][1]).endswith("::ONE")
        ret = [bb for bb in malsec.ok_blocks(rk)]
        col = flow.find_calls(rk, re.compile(r"Iterator::collect$"))
        okk = okk and len(col) == 1 and malsec.value_source(flow.expr_of(rk, col[0][1]["args"][0], max_depth=6), r"Iterator::chain$") is not None
    ctx.ob(rule, "keys:opened-then-ONE", okk, "keys = opened key shares ++ [ONE]" if okk else "the key vector is not the opened keys followed by ONE: the tag word is weighted wrongly (honest rows fail) or not at all (tag changes go unnoticed)", site_of(rk, ch[0][0]) if ch else site_of(rk))
    inner = [b for b in facts.tree(base + "reveal_keys") if b.coroutine and flow.find_calls(b, re.compile(r"reveal::malicious_reveal$"))]
    oki = False
    if len(inner) == 1:
        ib = inner[0]
        mr = flow.find_calls(ib, re.compile(r"reveal::malicious_reveal$"))[0]
        a = [flow.expr_of(ib, x, max_depth=8) for x in mr[1]["args"]]
        oki = a[1][0] == "call" and a[1][1].endswith("From::from") and a[1][2][0][0] == "upvar" and a[3][0] == "upvar" and a[2] == ("agg", ("std::option::Option", "None"), ())
    ctx.ob(rule, "keys:key-i-under-record-i", oki, "malicious_reveal(ctx, RecordId::from(i), None, key_i): opened to all helpers" if oki else "key shares are not opened one per record id to every helper with malicious_reveal", site_of(inner[0]) if inner else site_of(rk))


def tag_generation(ctx, facts, rule="TAG"):
    """compute_and_add_tags: tag_i = sum_col key_col * word_{i,col} (shared multiplication), attached to row i."""
    ctx.rule(f"{rule} (generation): per chunk, column col of the transposed rows is (split_rows[i][col]) for i in 0..TAG_CHUNK; column col is multiplied with expanded key col on context col under the chunk's record id; the products are summed from ZERO with acc + x; row i of the chunk is concatenated with tag i; total records = ceil(rows / TAG_CHUNK); an empty input returns an empty table")
    base = "protocol::ipa_prf::shuffle::malicious::compute_and_add_tags"
    tree = {b.path[len(base):]: b for b in facts.tree(base)}
    chunk_b = next((b for p, b in tree.items() if b.coroutine and flow.find_calls(b, re.compile(r"TryStreamExt::try_fold$"))), None)
    outer = next((b for p, b in tree.items() if b.coroutine and flow.find_calls(b, re.compile(r"process_slice_by_chunks$"))), None)
    if chunk_b is None or outer is None:
        return ctx.missing(rule, "compute_and_add_tags (outer body / per-chunk body)")
    ctx.count(bodies=len(tree))
    cp = chunk_b.path[len(base):]
    # transposition
    # (captured variables are matched by position and role, never by their source names)
    tr = next((b for p, b in sorted(tree.items()) if not b.coroutine and b.kind == "Closure" and any(t2 for _, t2 in flow.find_calls(b, re.compile(r"ops::Index::index$")) if flow.expr_of(b, t2["args"][0], max_depth=4)[0] == "upvar" and flow.expr_of(b, t2["args"][1], max_depth=4) == ("arg", 2))), None)
    okt = False
    if tr is not None:
        r = flow.expr_of(tr, {"cp": [0]}, max_depth=10)
        src = r
        while src[0] == "call" and re.search(r"(Clone::clone|Deref::deref)$", src[1]):
            src = src[2][0]
        okt = src[0] == "call" and src[1].endswith("Index::index") and src[2][0][0] == "call" and src[2][0][1].endswith("Index::index") and src[2][0][2][0][0] == "upvar" and src[2][0][2][1] == ("arg", 2) and src[2][1][0] == "upvar" and src[2][1] != src[2][0][2][0]
    ctx.ob(rule, "gen:transpose[i][col]", okt, "column col holds word col of row i at lane i" if okt else "the transposition does not take split_rows[i][col] (rows and columns mixed up: tags are computed over the wrong words)", site_of(tr) if tr is not None else site_of(chunk_b))
    # multiply(ctx_k, record i, key_k, col_k) over zip(tag_ctx, zip(keys, cols))
    z = flow.find_calls(chunk_b, re.compile(r"Iterator::zip$"))
    okz = False
    # (a second zip may pair the chunk's rows with their tags further down: the one meant here zips with std::iter::zip(keys, columns))
    z = [x for x in z if (lambda e: e[0] == "call" and e[1] == "std::iter::zip")(flow.expr_of(chunk_b, x[1]["args"][1], max_depth=4))] if len(z) > 1 else z
    if len(z) == 1:
        a0, a1 = (flow.expr_of(chunk_b, x, max_depth=12) for x in z[0][1]["args"])
        okz = a0[0] == "call" and a0[1].endswith("::iter") and a0[2][0][0] == "upvar" and a1[0] == "call" and a1[1] == "std::iter::zip"
        if okz:
            k_, c_ = a1[2]
            okz = "Expand::expand" in str(k_) and "Range" in str(c_) and "Expand::expand" not in str(c_)
    mulb = next((b for p, b in tree.items() if b.coroutine and flow.find_calls(b, re.compile(r"(sh_multiply|semi_honest_multiply)$"))), None)
    okm = False
    if mulb is not None:
        m = flow.find_calls(mulb, re.compile(r"(sh_multiply|semi_honest_multiply)$"))[0]
        a = [flow.expr_of(mulb, x, max_depth=8) for x in m[1]["args"]]
        okm = a[1][0] == "call" and a[1][1].endswith("From::from") and a[1][2][0][0] == "upvar" and a[2][0] == "upvar" and a[3][0] == "upvar" and a[2] != a[3] and "upvar" in str(a[0])
    ctx.ob(rule, "gen:key-col-times-column-col", okz and okm, "zip(tag contexts, zip(expanded keys, columns)) -> multiply(ctx, record(chunk index), key, column)" if okz and okm else "keys, columns and per-column contexts are not zipped in step, or the product is not key * column under the chunk's record id", site_of(chunk_b, z[0][0]) if z else site_of(chunk_b))
    # sum
    tf = flow.find_calls(chunk_b, re.compile(r"TryStreamExt::try_fold$"))
    addb = None
    if tf:
        old = flow.CLOSURE_DEFS
        flow.CLOSURE_DEFS = True
        try:
            ce = flow.expr_of(chunk_b, tf[0][1]["args"][2], max_depth=4)
        finally:
            flow.CLOSURE_DEFS = old
        if ce[0] == "agg" and isinstance(ce[1], tuple) and ce[1][0] == "closure":
            addb = facts.bodies.get(ce[1][1])
    oks = False
    if tf and addb is not None:
        init = flow.expr_of(chunk_b, tf[0][1]["args"][1], max_depth=6)
        r = flow.expr_of(addb, {"cp": [0]}, max_depth=10)
        oks = init[0] == "const" and str(init[1]).endswith("::ZERO") and ("call", "std::ops::Add::add", (("arg", 2), ("arg", 3))) in list(_walk_all(r)) and "then" in str(flow.expr_of(chunk_b, tf[0][1]["args"][0], max_depth=4))
    ctx.ob(rule, "gen:sum-from-zero", oks, "try_fold(ZERO, acc + x) over the products" if oks else "the tag is not the plain sum of the per-column products starting from ZERO", site_of(chunk_b, tf[0][0]) if tf else site_of(chunk_b))
    # attach tag i to row i
    catb = next((b for p, b in tree.items() if flow.find_calls(b, re.compile(r"concatenate_row_and_tag$"))), None)
    oka = False
    if catb is not None:
        c = flow.find_calls(catb, re.compile(r"concatenate_row_and_tag$"))[0]
        a0, a1 = (flow.expr_of(catb, x, max_depth=8) for x in c[1]["args"])
        idx0 = [x for x in _walk_all(a0) if x[0] == "call" and x[1].endswith("Index::index")]
        idx1 = flow.strip_casts(a1)
        # row: <chunk>[i], tag: <tags>[i] with the same index expression i, from two different captured tables
        tag_tbl_ok = idx1[0] == "call" and idx1[1].endswith("Index::index") and idx1[2][0][0] == "upvar" and idx1[2][1] == ("arg", 2)
        via_call = any(x[2][1] == idx1[2][1] and flow.strip_casts(x[2][0]) != idx1[2][0] for x in idx0) if tag_tbl_ok else False
        # `chunk[i]` on an array is a built-in index projection (kind 'i'; the index local is the closure's parameter)
        a0s = flow.strip_casts(a0)
        ups0 = [x for x in _walk_all(a0s) if x[0] == "upvar"]
        via_proj = tag_tbl_ok and a0s[0] == "proj" and a0s[-1] == "i" and len(ups0) == 1 and ups0[0] != idx1[2][0]
        oka = tag_tbl_ok and (via_call or via_proj)
        if not oka and flow.strip_casts(a0) == ("arg", 2, 0) and flow.strip_casts(a1) == ("arg", 2, 1):
            # `chunk.iter().zip(&tags).map(|(row, tag)| concatenate_row_and_tag(row, tag))`: the pairing is positional by
            # construction; the two zipped tables must be the captured chunk and the unpacked tags
            par = facts.bodies.get(catb.path.rsplit("::{closure", 1)[0])
            old_ = flow.CLOSURE_DEFS
            flow.CLOSURE_DEFS = True
            try:
                for bb_, t_ in (flow.find_calls(par, re.compile(r"Iterator::map$")) if par is not None else []):
                    f_ = flow.expr_of(par, t_["args"][1], max_depth=4)
                    if f_[0] == "agg" and isinstance(f_[1], tuple) and f_[1][:2] == ("closure", catb.path):
                        src_ = flow.expr_of(par, t_["args"][0], max_depth=14)
                        if src_[0] == "call" and src_[1].endswith("Iterator::zip") and len(src_[2]) == 2:
                            rows_, tags_ = src_[2]
                            rows_up = [x for x in _walk_all(rows_) if x[0] == "upvar"]
                            oka = rows_[0] == "call" and rows_[1].endswith("::iter") and len(rows_up) == 1 and "into_unpacking_iter" in str(tags_) and "into_unpacking_iter" not in str(rows_)
            finally:
                flow.CLOSURE_DEFS = old_
    ctx.ob(rule, "gen:tag-i-to-row-i", oka, "concatenate_row_and_tag(chunk[i], tags[i])" if oka else "a row is concatenated with another row's tag", site_of(catb) if catb is not None else site_of(chunk_b))
    # sizes
    sp = flow.find_calls(outer, re.compile(r"TotalRecords::specified$"))
    okn = False
    if sp:
        e = flow.expr_of(outer, sp[0][1]["args"][0], max_depth=8)
        okn = e[0] == "call" and e[1].endswith("div_round_up") and e[2][0][0] == "call" and e[2][0][1].endswith("::len") and e[2][0][2][0][0] == "upvar"
    ctx.ob(rule, "gen:records=ceil(rows/chunk)", okn, "total records = div_round_up(rows.len(), TAG_CHUNK)" if okn else "the multiplication channels are not sized to the number of row chunks", site_of(outer, sp[0][0]) if sp else site_of(outer))


def _walk_all(e):
    if isinstance(e, tuple) and e and isinstance(e[0], str):
        yield e
        for x in e[1:]:
            if isinstance(x, tuple):
                if x and isinstance(x[0], str):
                    yield from _walk_all(x)
                else:
                    for y in x:
                        yield from _walk_all(y)
