"""C13  Each record sent on a channel reaches exactly the matching receive, in any order.

Decided statically (keying and bounds only; DESIGN.md §3/C13):
  KEY-send     GatewaySenders::get: the map key and the (peer, gate) route handed to transport.send both come from the
               same channel_id; the sender inserted under the key is the one whose stream is handed to the transport.
  KEY-recv     Gateway::get_{mpc,shard}_receiver build the transport receive route from channel_id.peer and
               (query_id, channel_id.gate) of the same ChannelId used as the receivers' map key; MPC and shard
               senders/receivers live in four distinct maps (no leak across peer / step / shard keys).
  GUARD-count  GatewaySender::send: OrderingSender::send is reachable only on the record_id < count side of the
               `record_id >= count => Err(TooManyRecords)` guard; OrderingSender::close(i + 1) follows the send exactly
               under total_records.is_last(record_id).
  WAKE-1       Pending => waker registered / poll delegated, for every Stream/Future in helpers::gateway and
               helpers::transport.
  ERR-adapter  stream adapters on the receive path pass errors on (shared with C19).
Delivery, ordering within the window and deadlock freedom are schedule properties: not decided.  The capacity /
read-size alignment rule needs a divisibility domain this design does not build: not decided.
"""
import re
from vlib import facts as F, flow, wake
from vlib.core import site_of
from rules import malsec, C19

# the overflow list and the stall-detection bookkeeping of the buffers have a sibling without the stall-detection
# feature (the one the helper image ships): config N compiles it
CONFIGS_QUICK = ["Q", "N"]
LEVEL = "other"
EXPLANATION = "C13: provenance of map keys and transport routes from one ChannelId, guard dominance of the record-count check, close-at-last pairing, waker discipline of gateway/transport poll functions, error-preserving stream adapters."

GW = "helpers::gateway::"


def run(ctx):
    facts = ctx.facts()
    key_send(ctx, facts)
    key_recv(ctx, facts)
    guard_count(ctx, facts)
    wake_rule(ctx, facts)
    C19.err_adapters(ctx, facts)
    align(ctx, facts)
    rendezvous_waker(ctx, facts)
    rendezvous_table(ctx, facts)
    spare(ctx, facts)
    # the "cannot deadlock while the window has room" clause rests on the buffers' waker discipline (shared with C14)
    from rules import C14
    C14.wake1(ctx, facts)
    C14.slots(ctx, facts)
    C14.latest_waker(ctx, facts)
    C14.wake2(ctx, facts)
    C14.guards(ctx, facts)
    C14.cursors(ctx, facts)
    C14.waker_store(ctx, facts)
    C14.waker_ring(ctx, facts)
    C14.waker_overflow(ctx, facts)
    C14.overflow_drain(ctx, facts)
    ctx.assume("transport implementations deliver streams to the route they are given; interleavings beyond the waker discipline are not decided here")


def key_send(ctx, facts):
    ctx.rule("KEY-send: in GatewaySenders::get, DashMap::entry(channel_id.clone()) keys the sender and transport.send(peer, (Records, query_id, gate), stream) uses peer/gate destructured from the same channel_id; the stream wraps the inserted sender")
    b = next((x for p, x in facts.bodies.items() if re.search(r"gateway::send::GatewaySenders::<I>::get$", p)), None)
    if b is None:
        return ctx.missing("KEY-send", "GatewaySenders::get")
    tree = facts.tree(b.root)
    ctx.count(bodies=len(tree))
    ent = flow.find_calls(b, re.compile(r"DashMap::<K, V, S>::entry$|DashMap::<K, V>::entry$|dashmap::DashMap.*::entry$"))
    okk = False
    if ent:
        e = flow.expr_of(b, ent[0][1]["args"][1])
        okk = e[0] == "call" and e[1].endswith("Clone::clone") and e[2][0][:2] == ("arg", 2)
    ctx.ob("KEY-send", "map-key-is-channel-id", okk, "senders are keyed by the full ChannelId (peer, gate)" if okk else "the sender map is not keyed by the channel id passed in (channels of different peers/steps can collide)", site_of(b, ent[0][0]) if ent else site_of(b))
    # transport.send inside the spawned async block
    sent = None
    for tb in tree:
        for bb, t in tb.calls():
            if (F.callee(t)[0] or "").endswith("Transport::send"):
                sent = (tb, bb, t)
    if sent is None:
        return ctx.ob("KEY-send", "route-from-channel-id", False, "no transport.send for a new channel", site_of(b))
    tb, bb, t = sent
    dest = flow.expr_of(tb, t["args"][1])
    route = flow.expr_of(tb, t["args"][2])
    s = str(dest) + str(route)
    # positional: what the spawned block captured is resolved in get() itself - the destination is the `peer` field and
    # the gate the `gate` field of (a clone of) the channel id parameter, the query id is the query_id parameter
    from rules.C06 import upvar_sources
    ups = upvar_sources(facts, b, tb.path) if tb is not b else {}

    def src(e):
        e = ups.get(e[1], e) if e[0] == "upvar" else e
        while e[0] == "call" and re.search(r"(Clone::clone|Deref::deref|Borrow::borrow)$", e[1]) and e[2]:
            e = e[2][0]
        return flow.strip_casts(e)

    def field_of_channel(e, field):
        e = src(e)
        if e[0] != "proj" or e[-1] != field:
            return False
        base = e[1]
        while base[0] == "call" and re.search(r"(Clone::clone|Deref::deref|Borrow::borrow)$", base[1]) and base[2]:
            base = base[2][0]
        return flow.strip_casts(base)[:2] == ("arg", 2)
    parts = route[2] if route[0] == "agg" and route[1] == "tuple" and len(route) > 2 else ()
    ok = field_of_channel(dest, "peer") and len(parts) == 3 and "'Records')" in str(parts[0]) and src(parts[1])[:2] == ("arg", 5) and field_of_channel(parts[2], "gate")
    ctx.ob("KEY-send", "route-from-channel-id", ok, "transport.send(peer, (RouteId::Records, query_id, gate), ..)" if ok else f"route handed to the transport is {s[:200]}", site_of(tb, bb))
    # peer and gate upvars come from one destructuring of channel_id.clone()
    okd = False
    for bb2, idx, st in b.iter_assigns():
        r = st["r"]
        if r["k"] == "agg" and r["ak"] in ("coroutine", "closure") and r.get("def", "").startswith(b.root):
            ops = [str(flow.expr_of(b, o)) for o in r["ops"]]
            pe = [o for o in ops if "'peer'" in o]
            ga = [o for o in ops if "'gate'" in o]
            okd = bool(pe) and bool(ga) and all("('arg', 2)" in o for o in pe + ga)
    ctx.ob("KEY-send", "peer-and-gate-of-same-channel", okd, "peer and gate of the route are the two halves of the same channel_id" if okd else "peer / gate given to the transport are not both taken from the keyed channel_id", site_of(b))
    ins = flow.find_calls(b, re.compile(r"VacantEntry::<'a, K, V, S>::insert$|VacantEntry.*::insert$"))
    oks = False
    if ins:
        e = str(flow.expr_of(b, ins[0][1]["args"][1]))
        oks = "new_sender" in e
        st_ = [str(flow.expr_of(b, s2["r"]["ops"][0])) for _, _, s2 in b.iter_assigns() if s2["r"]["k"] == "agg" and s2["r"].get("adt", "").endswith("GatewaySendStream")]
        oks = oks and bool(st_) and "new_sender" in st_[0]
    ctx.ob("KEY-send", "stream-of-inserted-sender", oks, "the transport drains the very sender stored under the key" if oks else "the stream given to the transport is not the sender registered in the map", site_of(b))


def key_recv(ctx, facts):
    ctx.rule("KEY-recv: get_mpc_receiver / get_shard_receiver: get_or_create(channel_id, ..) and transport.receive(channel_id.peer, (query_id, channel_id.gate)) use the same channel id; four distinct maps for mpc/shard x send/recv")
    for name, fld in (("get_mpc_receiver", "mpc_receivers"), ("get_shard_receiver", "shard_receivers")):
        b = next((x for p, x in facts.bodies.items() if p.endswith("gateway::Gateway::" + name)), None)
        if b is None:
            ctx.missing("KEY-recv", "Gateway::" + name)
            continue
        tree = facts.tree(b.root)
        ctx.count(bodies=len(tree))
        goc = flow.find_calls(b, re.compile(r"get_or_create$"))
        okk = False
        if goc:
            m = str(flow.expr_of(b, goc[0][1]["args"][0]))
            k = flow.expr_of(b, goc[0][1]["args"][1])
            okk = fld in m and k[:2] == ("arg", 2)
        ctx.ob("KEY-recv", f"{name}:map-and-key", okk, f"looked up in {fld} under channel_id" if okk else f"{name} does not key {fld} by the channel id", site_of(b))
        rc = None
        for tb in tree:
            for bb, t in tb.calls():
                if (F.callee(t)[0] or "").endswith("Transport::receive"):
                    rc = (tb, bb, t)
        if rc is None:
            ctx.ob("KEY-recv", f"{name}:route", False, "no transport.receive call", site_of(b))
            continue
        tb, bb, t = rc
        frm = str(flow.expr_of(tb, t["args"][1]))
        rt = str(flow.expr_of(tb, t["args"][2]))
        tr = str(flow.expr_of(tb, t["args"][0]))
        ok = "'peer'" in frm and "'gate'" in rt and "query_id" in rt and ("mpc" in tr if "mpc" in name else "shard" in tr)
        ctx.ob("KEY-recv", f"{name}:route", ok, "receive(channel_id.peer, (query_id, channel_id.gate)) on the matching transport" if ok else f"receive route is ({frm[:80]}, {rt[:80]}) on {tr[:60]}", site_of(tb, bb))
    for name, fld in (("get_mpc_sender", "mpc_senders"), ("get_shard_sender", "shard_senders")):
        b = next((x for p, x in facts.bodies.items() if p.endswith("gateway::Gateway::" + name)), None)
        if b is None:
            ctx.missing("KEY-recv", "Gateway::" + name)
            continue
        g = flow.find_calls(b, re.compile(r"GatewaySenders::<I>::get$"))
        ok = False
        if g:
            m = str(flow.expr_of(b, g[0][1]["args"][0]))
            k = flow.expr_of(b, g[0][1]["args"][1])
            tr = str(flow.expr_of(b, g[0][1]["args"][2]))
            ok = fld in m and k[:2] == ("arg", 2) and ("mpc" in tr if "mpc" in name else "shard" in tr)
        ctx.ob("KEY-recv", f"{name}:map-key-transport", ok, f"{fld} keyed by channel_id on the matching transport" if ok else f"{name} mixes maps / transports", site_of(b))


def guard_count(ctx, facts):
    ctx.rule("GUARD-count: GatewaySender::send: record_id >= count => Err(TooManyRecords) before OrderingSender::send; close(i + 1) only under is_last(record_id), after the send")
    b = malsec.async_body(facts, "helpers::gateway::send::GatewaySender::<I>::send")
    if b is None:
        return ctx.missing("GUARD-count", "GatewaySender::send")
    ctx.count(bodies=1)
    dom = b.dominators()
    snd = flow.find_calls(b, re.compile(r"OrderingSender::send$"))
    cls = flow.find_calls(b, re.compile(r"OrderingSender::close$"))
    g = None
    for bb in sorted(b.live_blocks()):
        t = b.term(bb)
        if t["k"] == "switch":
            e = flow.expr_of(b, t["o"])
            if e[0] == "bin" and e[1] in ("Ge", "Gt", "Lt", "Le") and "NonZero" in str(e) or (e[0] == "bin" and e[1] in ("Ge", "Gt", "Lt", "Le") and "get" in str(e[3]) and "From::from" in str(e[2])):
                g = (bb, e, flow.switch_edges(b, bb))
    if g is None or not snd:
        return ctx.ob("GUARD-count", "bound-check", False, "no record_id >= count guard before sending", site_of(b))
    sw, e, ed = g
    ok_op = e[1] == "Ge"
    reject = ed[1]
    okg = ok_op and any(x in b.reachable(reject) for x in malsec.err_aggs(b, "TooManyRecords")) and not any(x in b.reachable(reject) for x, _ in snd)
    ctx.ob("GUARD-count", "bound-check", okg, "records at or beyond the declared total are refused before anything is written" if okg else f"the record-count guard (`{e[1]}`) does not keep out-of-range records from OrderingSender::send", site_of(b, sw))
    # the guard is applied whenever the total is specified: it sits on the Specified edge and send is after it
    ctx.ob("GUARD-count", "send-after-guard", all(sw in b.reachable(0) and (x in b.reachable(ed[0])) for x, _ in snd), "OrderingSender::send happens on the in-range side", site_of(b, snd[0][0]))
    il = flow.find_calls(b, re.compile(r"TotalRecords::is_last$"))
    okc = False
    if il and cls:
        swl = malsec.guards(b, r"TotalRecords::is_last$")
        st = flow.settled(b, snd[0][0])
        if swl and st:
            _, _, edl, _ = swl[0]
            ce = flow.strip_casts(flow.expr_of(b, cls[0][1]["args"][1]))
            plus1 = ce[0] == "bin" and ce[1] == "Add" and ("const", 1) in (ce[2], ce[3])
            okc = plus1 and all(flow.dominates(dom, edl[1], x) for x, _ in cls) and all(flow.dominates(dom, st["ready"], x) for x, _ in cls)
    ctx.ob("GUARD-count", "close-at-last", okc, "the channel is closed at i + 1 exactly after the last record was written" if okc else "close is not tied to is_last(record_id) / not at i + 1 / not after the send", site_of(b, cls[0][0]) if cls else site_of(b))


def wake_rule(ctx, facts):
    ctx.rule("WAKE-1: for every fn returning Poll<_> in helpers::gateway and helpers::transport: no explicit Pending without a registered waker / delegated poll")
    n = 0
    for b in sorted(facts.non_test_bodies(), key=lambda x: x.path):
        if not (b.root.startswith("helpers::gateway") or b.root.startswith("<helpers::gateway") or b.root.startswith("helpers::transport") or b.root.startswith("<helpers::transport") or b.root.startswith("<helpers::stream") or b.root.startswith("<query::runner::reshard_tag")):
            continue
        if not wake.returns_poll(b) or not b.file.startswith("ipa-core/"):
            continue
        sites = wake.pending_sites(b)
        if not sites:
            continue
        n += 1
        bad, reg = wake.unregistered_pending(b)
        for k, (bb, idx) in enumerate(sites):
            isbad = (bb, idx) in bad
            ctx.ob("WAKE-1", f"{b.path}#pending{k}", not isbad, "Pending only after delegation / registration" if not isbad else "Pending returned without a registered waker", site_of(b, bb, idx))
    ctx.floor("WAKE-1", "poll fns with explicit Pending on the channel path", n, 5)


# ---------------------------------------------------------------------------------------------
class NoEval(Exception):
    pass


def _prev_pow2(x):
    if x < 1:
        return 1
    p = 1
    while p * 2 <= x:
        p *= 2
    return p


def ieval(e, env):
    e = flow.strip_casts(e)
    for k, v in env.items():
        if e == k:
            return v
    if e[0] == "const" and isinstance(e[1], int):
        return e[1]
    if e[0] == "proj":
        return ieval(e[1], env)
    if e[0] == "call":
        fn = e[1]
        if re.search(r"(NonZero::<T>::get|NonZeroU32PowerOfTwo::get|to_non_zero_usize|TryFrom::try_from|TryInto::try_into|From::from|Into::into|Result::<T, E>::(unwrap|expect)|Option::<T>::(unwrap|expect))$", fn):
            return ieval(e[2][0], env)
        if fn.endswith("non_zero_prev_power_of_two"):
            return _prev_pow2(ieval(e[2][0], env))
        if fn.endswith("::next_power_of_two"):
            x = ieval(e[2][0], env)
            p = 1
            while p < x:
                p *= 2
            return p
        if re.search(r"(Try::branch|Option::<T>::ok_or|Option::<T>::ok_or_else|expect_not_yet_validated|Option::<T>::unwrap_or_default)$", fn):
            return ieval(e[2][0], env)
        if re.search(r"::checked_sub$", fn):
            x, y = ieval(e[2][0], env), ieval(e[2][1], env)
            if x < y:
                raise NoEval("checked_sub underflow")      # the None arm: the caller decides what an undefined point means
            return x - y
        if re.search(r"::(checked_add|wrapping_add|saturating_add)$", fn):
            return ieval(e[2][0], env) + ieval(e[2][1], env)
        if re.search(r"::saturating_sub$", fn):
            return max(0, ieval(e[2][0], env) - ieval(e[2][1], env))
        if re.search(r"cmp::min$|Ord::min$", fn):
            return min(ieval(x, env) for x in e[2])
        if re.search(r"cmp::max$|Ord::max$", fn):
            return max(ieval(x, env) for x in e[2])
        raise NoEval(fn)
    if e[0] == "bin":
        a, b = ieval(e[2], env), ieval(e[3], env)
        op = e[1].replace("WithOverflow", "")
        if op in ("Div", "Rem") and b == 0:
            raise NoEval("division by zero")
        tbl = {"Add": a + b, "Sub": a - b, "Mul": a * b, "Div": a // b if b else 0, "Rem": a % b if b else 0, "Shl": a << b if 0 <= b < 256 else 0,
               "Shr": a >> b if 0 <= b < 256 else 0, "BitAnd": a & b, "BitOr": a | b, "BitXor": a ^ b}
        if op not in tbl:
            raise NoEval(op)
        return tbl[op]
    raise NoEval(str(e)[:60])


def beval(e, env):
    """truth value of a boolean expression tree under env (comparisons, `!`, and the integer predicates the code base uses)"""
    e = flow.strip_casts(e)
    if e[0] == "const" and isinstance(e[1], int):
        return bool(e[1])
    if e[0] == "un" and e[1] == "Not":
        return not beval(e[2], env)
    if e[0] == "bin" and e[1] in ("Lt", "Le", "Gt", "Ge", "Eq", "Ne"):
        a, b = ieval(e[2], env), ieval(e[3], env)
        return {"Lt": a < b, "Le": a <= b, "Gt": a > b, "Ge": a >= b, "Eq": a == b, "Ne": a != b}[e[1]]
    if e[0] == "call":
        fn = e[1]
        if re.search(r"::is_multiple_of$", fn):
            a, b = ieval(e[2][0], env), ieval(e[2][1], env)
            return a == 0 if b == 0 else a % b == 0
        if re.search(r"::is_power_of_two$", fn):
            a = ieval(e[2][0], env)
            return a > 0 and a & (a - 1) == 0
        if re.search(r"PartialEq::(eq|ne)$", fn):
            a, b = ieval(e[2][0], env), ieval(e[2][1], env)
            return (a == b) == fn.endswith("eq")
        if re.search(r"PartialOrd::(lt|le|gt|ge)$", fn):
            a, b = ieval(e[2][0], env), ieval(e[2][1], env)
            return {"lt": a < b, "le": a <= b, "gt": a > b, "ge": a >= b}[fn.rsplit("::", 1)[1]]
    raise NoEval("bool " + str(e)[:60])


def guard_holds(f, env):
    """an edge fact from flow.edge_guards under env"""
    op, l, r = f
    if op in ("true", "false"):
        return beval(l, env) == (op == "true")
    return beval(("bin", op, l, r), env)


def ieval_in(b, e, env, _depth=0):
    """ieval for an expression of body b that may mention locals assigned on several paths (`if c { x } else { y }`):
    such a local is replaced by the value of the one definition whose dominating branch facts hold under env"""
    try:
        return ieval(e, env)
    except NoEval:
        if _depth > 6:
            raise
    dom = b.dominators()
    eg = flow.edge_guards(b)

    def subst(x):
        if not isinstance(x, tuple) or not x:
            return x
        if x[0] == "place" and len(x) == 2 and isinstance(x[1], int):
            vals = set()
            for bb, idx, d in b.defs().get(x[1], []):
                if idx == "t" or d["k"] not in ("use", "bin", "un", "cast"):
                    raise NoEval(f"local {x[1]} defined by {d['k']}")
                gs = [f for tgt, f in eg if flow.dominates(dom, tgt, bb)]
                if all(guard_holds(f, env) for f in gs):
                    if d["k"] == "use":
                        de = flow.expr_of(b, d["o"], max_depth=20)
                    elif d["k"] == "bin":
                        de = ("bin", d["op"].replace("WithOverflow", ""), flow.expr_of(b, d["a"], max_depth=20), flow.expr_of(b, d["b"], max_depth=20))
                    else:
                        raise NoEval(f"local {x[1]} defined by {d['k']}")
                    vals.add(ieval_in(b, de, env, _depth + 1))
            if len(vals) != 1:
                raise NoEval(f"local {x[1]}: {len(vals)} candidate values")
            return ("const", vals.pop())
        return tuple(subst(y) if isinstance(y, tuple) else y for y in x)
    return ieval(subst(e), env)


def compile_expr(e, keys):
    """Turn an expression tree into a Python function of the values of `keys` (same semantics as ieval, but ~50x
    faster for large grids).  Raises NoEval for anything the evaluator does not know."""
    names = {k: f"v{i}" for i, k in enumerate(keys)}

    def gen(e):
        e = flow.strip_casts(e)
        if e in names:
            return names[e]
        if e[0] == "const" and isinstance(e[1], int):
            return repr(e[1])
        if e[0] == "proj":
            return gen(e[1])
        if e[0] == "call":
            fn = e[1]
            if re.search(r"(NonZero::<T>::get|NonZeroU32PowerOfTwo::get|to_non_zero_usize|TryFrom::try_from|TryInto::try_into|From::from|Into::into|Result::<T, E>::(unwrap|expect)|Option::<T>::(unwrap|expect))$", fn):
                return gen(e[2][0])
            if fn.endswith("non_zero_prev_power_of_two"):
                return f"_pp2({gen(e[2][0])})"
            if fn.endswith("::next_power_of_two"):
                return f"_np2({gen(e[2][0])})"
            if fn.endswith("::div_ceil"):
                return f"(-(-({gen(e[2][0])}) // ({gen(e[2][1])})))"
            if re.search(r"cmp::min$|Ord::min$", fn):
                return "min(" + ", ".join(gen(x) for x in e[2]) + ")"
            if re.search(r"cmp::max$|Ord::max$", fn):
                return "max(" + ", ".join(gen(x) for x in e[2]) + ")"
            raise NoEval(fn)
        if e[0] == "bin":
            op = e[1].replace("WithOverflow", "")
            sym = {"Add": "+", "Sub": "-", "Mul": "*", "Div": "//", "Rem": "%", "Shl": "<<", "Shr": ">>", "BitAnd": "&", "BitOr": "|", "BitXor": "^"}.get(op)
            if sym is None:
                raise NoEval(op)
            return f"(({gen(e[2])}) {sym} ({gen(e[3])}))"
        raise NoEval(str(e)[:60])

    def _np2(x):
        p = 1
        while p < x:
            p *= 2
        return p
    src = "lambda " + ", ".join(names[k] for k in keys) + ": " + gen(e)
    return eval(src, {"_pp2": _prev_pow2, "_np2": _np2, "min": min, "max": max})


def align(ctx, facts):
    ctx.rule("ALIGN: SendChannelConfig::new_with - for every (active = 2^k, record_size, configured read size) of a grid, the extracted total_capacity and both read_size arms satisfy total_capacity = active*record_size, read_size >= 1, read_size a multiple of record_size and total_capacity % read_size == 0 (a misaligned read size stalls the last partial batch); the two runtime assertions that turn a violation into a panic are present")
    b = facts.bodies.get("helpers::gateway::send::SendChannelConfig::new_with")
    if b is None:
        ctx.missing("ALIGN", "SendChannelConfig::new_with")
        return
    ctx.count(bodies=1)
    agg = None
    for bb, idx, st in b.iter_assigns():
        if st["r"]["k"] == "agg" and (st["r"].get("adt") or "").endswith("SendChannelConfig"):
            agg = (bb, st["r"])
    if agg is None:
        ctx.missing("ALIGN", "SendChannelConfig aggregate")
        return
    adt = facts.adts.get(agg[1]["adt"])
    names = [f["name"] for f in adt["variants"][0]["fields"]]
    ops = dict(zip(names, agg[1]["ops"]))
    cap_e = flow.expr_of(b, ops["total_capacity"], max_depth=40)
    rs_op = ops["read_size"]
    # read_size is a local assigned on two arms (indeterminate / determinate)
    rs_e = flow.strip_casts(flow.expr_of(b, rs_op, max_depth=40))
    arms = []
    def leaf_local(e):
        while e[0] == "call" and re.search(r"(TryInto::try_into|Result::<T, E>::unwrap|Into::into)$", e[1]):
            e = flow.strip_casts(e[2][0])
        return e
    base = leaf_local(rs_e)
    if base[0] == "place":
        for bb, idx, st in b.iter_assigns():
            if st["p"] == [base[1]] and st["r"]["k"] == "use":
                arms.append((bb, flow.expr_of(b, st["r"]["o"], max_depth=40)))
        for bb, t in b.calls():
            if t["d"] == [base[1]]:
                arms.append((bb, ("call", F.callee(t)[0], tuple(flow.expr_of(b, a, max_depth=40) for a in t["args"]))))
    else:
        arms.append((agg[0], rs_e))
    if not arms:
        ctx.missing("ALIGN", "read_size definition")
        return
    bad = None
    try:
        for k in range(0, 13):
            A = 1 << k
            for rs in list(range(1, 40)) + [64, 100, 256, 1000, 4096]:
                for R in (1, 2, 3, 7, 8, 31, 32, 33, 64, 100, 255, 256, 1000, 2048, 4096, 65536):
                    env = {("arg", 1, "active"): A, ("arg", 1, "read_size"): R, ("arg", 3): rs}
                    cap = ieval(cap_e, env)
                    if cap != A * rs:
                        bad = bad or (A, rs, R, f"total_capacity = {cap}, expected active*record_size = {A * rs}")
                    for abb, ae in arms:
                        v = ieval(ae, env)
                        if v < 1 or v % rs or cap % v:
                            bad = bad or (A, rs, R, f"read_size = {v} with total_capacity = {cap}")
    except NoEval as u:
        ctx.ob("ALIGN", "new_with:formula", False, f"cannot evaluate the capacity/read-size formula ({u})", site_of(b))
        bad = False
    if bad is not False:
        ctx.ob("ALIGN", "new_with:formula", bad is None, f"aligned for the whole grid ({len(arms)} read_size arm(s))" if bad is None else f"active={bad[0]}, record_size={bad[1]}, configured read_size={bad[2]}: {bad[3]} - the read size is not a divisor of the capacity / not a multiple of the record size, so the tail of the buffer is never flushed (or a record is split)", site_of(b, agg[0]))
    # runtime assertions
    asserts = {"capacity>=active*record": False, "capacity%read_size==0": False}
    dbg = flow.debug_only_blocks(b)
    panics = {bb for bb, t in b.calls() if t["t"] is None and bb not in dbg}      # a debug_assert! is not there in the shipped build
    for tgt, f in flow.edge_guards(b):
        if not any(pb in b.reachable(tgt, avoid=frozenset(x for x in [agg[0]])) for pb in panics):
            continue
        s_ = str(f)
        if f[0] == "Lt" and "NonZero::<T>::get" in s_ and "'Mul'" in s_ and "active" in s_:
            asserts["capacity>=active*record"] = True
        if f[0] == "Ne" and "'Rem'" in s_ and "('const', 0)" in s_:
            asserts["capacity%read_size==0"] = True
    for k_, v in asserts.items():
        ctx.ob("ALIGN", f"new_with:assert:{k_}", v, "violations panic at channel creation instead of stalling later" if v else f"the runtime assertion `{k_}` is gone: a misconfigured channel would stall silently", site_of(b))


def rendezvous_waker(ctx, facts):
    """StreamCollection::add_waker(key, waker) returns None (= 'no stream yet, you will be woken') only after it has
    stored exactly that waker for the key: a kept older waker wakes a context that no longer polls."""
    ctx.rule("WAKE-latest: in StreamCollection::add_waker every `None` return is preceded on its path by a write of the given waker into the entry (clone_from on the stored waker, or insert(Waiting(waker.clone())))")
    b = facts.bodies.get("helpers::transport::stream::collection::StreamCollection::<I, S>::add_waker")
    if b is None:
        ctx.missing("WAKE-latest", "StreamCollection::add_waker")
        return
    ctx.count(bodies=1)
    writes = set()
    for bb, t in b.calls():
        fn = F.callee(t)[0] or ""
        args = [str(flow.expr_of(b, x, max_depth=25)) for x in t["args"]]
        if any("('arg', 3)" in x for x in args[1:]) and re.search(r"(Clone::clone_from|VacantEntry::<'a, K, V(, S)?>::insert|VacantEntry.*::insert|Entry::<'a, K, V(, S)?>::or_insert|Option::<T>::(replace|insert))$", fn):
            writes.add(bb)
    nones = [bb for bb, idx, st in b.iter_assigns() if st["p"] == [0] and st["r"]["k"] == "agg" and st["r"].get("adt") == "std::option::Option" and st["r"].get("vn") == "None"]
    reach = b.reachable(0, avoid=frozenset(writes))
    stale = [n for n in nones if n in reach]
    ok = len(writes) >= 2 and bool(nones) and not stale
    ctx.ob("WAKE-latest", "add_waker:none-only-after-storing-the-waker", ok, "a receiver told to wait has its current waker registered" if ok else "StreamCollection::add_waker can answer `None` (wait) without having stored the caller's current waker: when the stream arrives the stale / missing waker is woken and the receive stalls", site_of(b, stale[0]) if stale else site_of(b))


def rendezvous_table(ctx, facts):
    """StreamCollection is the rendezvous between the network layer (add_stream, when a peer's request for a channel
    arrives) and the receiving protocol (add_waker, when it first polls the channel), in either order.  Per key it is a
    four-state machine: absent -> Waiting(waker) | Ready(stream); Waiting -> Ready (and the parked receiver is woken);
    Ready -> Completed (the stream is handed out once); everything else is a second stream or a second reader for the
    same (query, peer, step) and must panic rather than replace or hand out something twice."""
    from rules.C17 import variant_arms
    ctx.rule("RENDEZVOUS: evaluated per arm of the Entry / StreamState matches - add_stream: absent => insert(Ready(stream)); Waiting => replace(entry, Ready(stream)) and wake the replaced waker on every returning path; Ready / Completed => no return (panic) and no write.  add_waker: Ready => replace(entry, Completed) on every returning path and Some(replaced stream) is returned only there; Completed => no return (panic); absent => insert(Waiting(waker.clone()))")
    P = "helpers::transport::stream::collection::StreamCollection::<I, S>::"
    for fn in ("add_stream", "add_waker"):
        b = facts.bodies.get(P + fn)
        if b is None:
            ctx.missing("RENDEZVOUS", "StreamCollection::" + fn)
            continue
        ctx.count(bodies=1)
        rets = [bb for bb in b.live_blocks() if b.term(bb)["k"] == "ret"]
        ent = variant_arms(b, "std::collections::hash_map::Entry", facts)
        sta = [x for x in variant_arms(b, "collection::StreamState", facts) if "Entry<" not in (b.local_ty(x[1][0]) or "") and not (len(x[1]) == 1 and (b.local_ty(x[1][0]) or "").startswith("std::option::Option<")) and {"Waiting", "Ready", "Completed"} <= set(x[2])]
        if not ent:
            # `match map.get_mut(&key) { Some(state) => .., None => map.insert(key, ..) }`: None is the absent key
            for sw_, pl_, arms_ in variant_arms(b, "std::option::Option", facts):
                if re.search(r"HashMap::<K, V, S, A>::get_mut", str(flow.expr_of(b, {"cp": pl_}, max_depth=6))) and "None" in arms_ and "Some" in arms_ and len(pl_) == 1:
                    ent = [(sw_, pl_, {"Vacant": arms_["None"], "Occupied": arms_["Some"]})]
        if len(sta) > 1:
            # the stored state may be matched through the Option that get_mut returned: keep the match whose arms are distinct
            sta = [x for x in sta if len(set(x[2].values())) >= 2][:1]
        if len(ent) != 1 or len(sta) != 1:
            ctx.missing("RENDEZVOUS", f"{fn}: one match on the map entry and one on the stored StreamState (found {len(ent)}, {len(sta)})")
            continue
        earms, sarms = ent[0][2], sta[0][2]

        def calls(rx, argpred=None):
            out = set()
            for bb, t in b.calls():
                if re.search(rx, F.callee(t)[0] or ""):
                    args = [str(flow.expr_of(b, x, max_depth=25)) for x in t["args"]]
                    if argpred is None or argpred(args):
                        out.add(bb)
            return out

        def cut_for(state):
            """inside the arm for `state`, the value that mem::replace(entry, ..) returns is that same state: the other
            edges of a match on it (`let StreamState::X(v) = replace(..) else { unreachable!() }`, or an if-let) are dead"""
            cut = set()
            for sw, pl, arms in variant_arms(b, "collection::StreamState", facts):
                if re.search(r"mem::replace|OccupiedEntry<.*>::insert|OccupiedEntry::<.*>::insert", str(flow.expr_of(b, {"cp": pl}, max_depth=8))) and state in arms:
                    cut |= {(sw, x) for x in b.succs(sw) if x != arms[state]}
            return frozenset(cut)

        def returns_from(start, avoid=frozenset(), state=None):
            r = b.reachable(start, avoid=frozenset(avoid), avoid_edges=cut_for(state) if state else frozenset())
            return [x for x in rets if x in r]

        writes_any = calls(r"mem::replace$|VacantEntry.*::insert$|OccupiedEntry.*::(insert|remove|remove_entry)$|HashMap::<K, V, S, A>::(insert|remove)$")
        if fn == "add_stream":
            ins = calls(r"VacantEntry.*::insert$|HashMap::<K, V, S, A>::insert$", lambda a: "'Ready')" in a[-1] and "('arg', 3)" in a[-1])
            rep = calls(r"mem::replace$|OccupiedEntry.*::insert$", lambda a: "'Ready')" in a[1] and "('arg', 3)" in a[1])
            wk = calls(r"Waker::wake(_by_ref)?$", lambda a: "mem::replace" in a[0] or re.search(r"OccupiedEntry.*::insert", a[0]) is not None)
            ok = not returns_from(earms["Vacant"], ins) and bool(ins)
            ctx.ob("RENDEZVOUS", "add_stream:absent=>Ready(stream)", ok, "a stream that arrives first is stored as Ready" if ok else "a stream arriving before its receiver is not stored as Ready(stream) on every path: the receiver waits forever", site_of(b, earms["Vacant"]))
            ok = bool(rep) and not returns_from(sarms["Waiting"], rep, "Waiting")
            ctx.ob("RENDEZVOUS", "add_stream:Waiting=>Ready(stream)", ok, "the stream replaces the parked waker" if ok else "with a receiver already waiting, the arriving stream is not stored as Ready(stream) on every path", site_of(b, sarms["Waiting"]))
            ok = bool(wk) and not returns_from(sarms["Waiting"], wk, "Waiting")
            ctx.ob("RENDEZVOUS", "add_stream:Waiting=>wake", ok, "the waker taken out of the entry is woken" if ok else "a receiver parked in Waiting is not woken when its stream arrives (the waker replaced by Ready(stream) is dropped or a different one is woken)", site_of(b, sarms["Waiting"]))
            for v in ("Ready", "Completed"):
                r = returns_from(sarms[v]) if sarms[v] != sarms["Waiting"] else ["shares the Waiting arm"]
                w = [x for x in writes_any if x in b.reachable(sarms[v])] if sarms[v] != sarms["Waiting"] else []
                ok = not r and not w
                ctx.ob("RENDEZVOUS", f"add_stream:{v}=>panic", ok, "a second stream for the same (query, peer, step) is refused loudly" if ok else f"a second stream for a key whose entry is {v} is accepted ({'returns normally' if r else 'overwrites the entry'}): records of two requests are mixed into / replace one channel", site_of(b, sarms[v]))
        else:
            rep = calls(r"mem::replace$|OccupiedEntry.*::insert$", lambda a: "'Completed')" in a[1])
            ok = bool(rep) and not returns_from(sarms["Ready"], rep, "Ready")
            ctx.ob("RENDEZVOUS", "add_waker:Ready=>Completed", ok, "handing the stream out leaves a tombstone" if ok else "a Ready stream can be handed out without marking the entry Completed: a second reader for the same channel is not detected / the stream stays in the map", site_of(b, sarms["Ready"]))
            dom = b.dominators()
            somes = [(bb, st) for bb, idx, st in b.iter_assigns() if st["p"] == [0] and st["r"]["k"] == "agg" and st["r"].get("adt") == "std::option::Option" and st["r"].get("vn") == "Some"]
            ok = bool(somes) and all(flow.dominates(dom, sarms["Ready"], bb) and re.search(r"mem::replace|OccupiedEntry.*::insert", str(flow.expr_of(b, st["r"]["ops"][0], max_depth=25))) is not None for bb, st in somes)
            ctx.ob("RENDEZVOUS", "add_waker:Some-is-the-replaced-stream", ok, "Some(stream) is returned only in the Ready arm and is the value taken out of the entry" if ok else "add_waker returns Some(..) outside the Ready arm or something other than the stream it took out of the entry", site_of(b, somes[0][0]) if somes else site_of(b))
            r = returns_from(sarms["Completed"])
            w = [x for x in writes_any if x in b.reachable(sarms["Completed"])]
            ok = not r and not w
            ctx.ob("RENDEZVOUS", "add_waker:Completed=>panic", ok, "a second reader of a consumed channel is refused loudly" if ok else "asking again for a stream that was already handed out does not panic: the second receiver waits forever or gets another stream", site_of(b, sarms["Completed"]))
            ins = calls(r"VacantEntry.*::insert$|HashMap::<K, V, S, A>::insert$", lambda a: "'Waiting')" in a[-1] and "('arg', 3)" in a[-1])
            ok = bool(ins) and not returns_from(earms["Vacant"], ins)
            ctx.ob("RENDEZVOUS", "add_waker:absent=>Waiting(waker)", ok, "a receiver that comes first parks its waker" if ok else "a receiver polling before the stream arrived does not leave Waiting(waker) in the map", site_of(b, earms["Vacant"]))


# ---------------------------------------------------------------------------------------------
def spare(ctx, facts):
    """UnorderedReceiver reassembles fixed-size messages from arbitrarily cut chunks through `Spare`: the index
    arithmetic must hand out every byte exactly once, in order."""
    ctx.rule("SPARE: evaluated from the extracted slice ranges and guards for stored length 0..6, offset <= length, chunk length 0..8 and message size 1..5: extend() with too little data keeps exactly the unread tail followed by the chunk (offset 0); otherwise the message is (unread tail ++ first `needed` bytes of the chunk) with needed = size - tail, the copy ranges have equal lengths, and the rest of the chunk from `needed` on is kept; with no tail the message is the chunk's first `size` bytes and the rest is kept; read() hands out [offset, offset + size) only if it fits and advances offset by size")
    P = "helpers::buffers::unordered_receiver::Spare::"
    ex, rd, rp = (facts.bodies.get(P + n) for n in ("extend", "read", "replace"))
    if None in (ex, rd, rp):
        return ctx.missing("SPARE", "Spare::extend / read / replace")
    ctx.count(bodies=3)
    LEN, OFF, N = ("call", "std::vec::Vec::<T, A>::len", (("arg", 1, "buf"),)), ("arg", 1, "offset"), ("call", "core::slice::<impl [T]>::len", (("arg", 2),))
    SZ = ("const", "typenum::Unsigned::USIZE")
    OPS = {"Ge": lambda a, c: a >= c, "Gt": lambda a, c: a > c, "Le": lambda a, c: a <= c, "Lt": lambda a, c: a < c, "Eq": lambda a, c: a == c, "Ne": lambda a, c: a != c}
    dom = ex.dominators()
    eg = flow.edge_guards(ex)
    def guards_of(bb):
        return [f for tgt, f in eg if flow.dominates(dom, tgt, bb) and f[0] in OPS]
    def base(e):
        s_ = str(e)
        if e == ("arg", 2):
            return "v"
        if e == ("arg", 1, "buf"):
            return "buf"
        if "Default::default" in s_:
            return "tmp"
        return "?"
    sites = []
    for bb, t in ex.calls():
        fn = F.callee(t)[0] or ""
        if fn.endswith("ops::Index::index") or fn.endswith("ops::IndexMut::index_mut"):
            r = flow.expr_of(ex, t["args"][1], max_depth=12)
            if r[0] == "agg" and isinstance(r[1], tuple) and r[1][1] in ("RangeTo", "RangeFrom", "Range"):
                sites.append((bb, base(flow.expr_of(ex, t["args"][0], max_depth=6)), r[1][1], r[2]))
        elif re.search(r"<impl \[T\]>::split_at$", fn):
            # `let (head, rest) = v.split_at(n)` is `(&v[..n], &v[n..])`
            n_ = flow.expr_of(ex, t["args"][1], max_depth=12)
            bs_ = base(flow.expr_of(ex, t["args"][0], max_depth=6))
            sites.append((bb, bs_, "RangeTo", (n_,)))
            sites.append((bb, bs_, "RangeFrom", (n_,)))
    bad = None
    n = 0
    try:
        def ev(e, env):
            return ieval(e, env)
        for L in range(0, 7):
            for off in range(0, L + 1):
                for nn in range(0, 9):
                    for sz in range(1, 6):
                        env = {LEN: L, OFF: off, N: nn, SZ: sz}
                        rem = L - off
                        n += 1
                        live = [(bb, b_, k, [ev(x, env) for x in ops]) for bb, b_, k, ops in sites if all(OPS[op](ev(l, env), ev(r, env)) for op, l, r in guards_of(bb))]
                        if rem + nn < sz:
                            if live and bad is None:
                                bad = f"stored tail {rem}, chunk {nn}, size {sz}: not enough data, yet bytes are sliced out ({[(x[1], x[2], x[3]) for x in live]})"
                            continue
                        if rem > 0:
                            want = {("tmp", "RangeTo"): [rem], ("buf", "RangeFrom"): [off], ("tmp", "RangeFrom"): [rem], ("v", "RangeTo"): [sz - rem], ("v", "RangeFrom"): [sz - rem]}
                        else:
                            want = {("v", "RangeFrom"): [sz], ("v", "RangeTo"): [sz]}
                        got = {(b_, k): v for bb, b_, k, v in live}
                        if got != want and bad is None:
                            bad = f"stored tail {rem} (offset {off} of {L}), chunk {nn}, size {sz}: slices {got}, expected {want} (message = tail ++ chunk[..needed], rest = chunk[needed..])"
    except NoEval as exn:
        bad = f"cannot evaluate ({exn})"
    ctx.ob("SPARE", "extend:slices", bad is None, f"message and leftover slices are exact on all {n} grid points" if bad is None else bad, site_of(ex))
    # not-enough-data arm: buf := buf.split_off(offset); buf.extend_from_slice(v); offset := 0
    so = flow.find_calls(ex, re.compile(r"Vec::<T, A>::split_off$"))
    okk = False
    if len(so) == 1:
        a = [flow.expr_of(ex, x) for x in so[0][1]["args"]]
        wr = [(bb, s) for bb, idx, s in ex.iter_assigns() if any(isinstance(e, list) and e[0] == "f" and e[2] == "buf" for e in s["p"][1:]) and "o" in s["r"]]
        kept = any(flow.expr_of(ex, s["r"]["o"], max_depth=6) == ("call", "std::vec::Vec::<T, A>::split_off", (("arg", 1, "buf"), ("arg", 1, "offset"))) for bb, s in wr)
        extd = [bb for bb, t in flow.find_calls(ex, re.compile(r"Vec::<T, A>::extend_from_slice$")) if flow.dominates(dom, so[0][0], bb) and flow.expr_of(ex, t["args"][1]) == ("arg", 2)]
        zero = [bb for bb, idx, s in ex.iter_assigns() if any(isinstance(e, list) and e[0] == "f" and e[2] == "offset" for e in s["p"][1:]) and "o" in s["r"] and flow.expr_of(ex, s["r"]["o"]) == ("const", 0) and flow.dominates(dom, so[0][0], bb)]
        lt = [f for f in guards_of(so[0][0]) if f[0] == "Lt"]
        okk = a == [("arg", 1, "buf"), ("arg", 1, "offset")] and kept and bool(extd) and bool(zero) and bool(lt)
    ctx.ob("SPARE", "extend:keeps-tail-then-chunk", okk, "buf = buf.split_off(offset); buf.extend_from_slice(v); offset = 0" if okk else "with too little data the unread tail is not kept in front of the new chunk (bytes lost or reordered across chunk boundaries)", site_of(ex, so[0][0]) if so else site_of(ex))
    # read
    bad = None
    try:
        rdom = rd.dominators()
        reg = flow.edge_guards(rd)
        ix = [(bb, flow.expr_of(rd, t["args"][1], max_depth=8)) for bb, t in rd.calls() if (F.callee(t)[0] or "").endswith("ops::Index::index")]
        via_get = False
        if not ix:
            # `self.buf.get(offset..end)?`: the slice is taken iff the range lies inside the buffer
            ix = [(bb, flow.expr_of(rd, t["args"][1], max_depth=8)) for bb, t in rd.calls() if re.search(r"(slice::<impl \[T\]>|Vec::<T, A>)::get$", F.callee(t)[0] or "") and "buf" in str(flow.expr_of(rd, t["args"][0], max_depth=6))]
            via_get = bool(ix)
        adv = [(bb, flow.expr_of(rd, s["r"]["o"], max_depth=8)) for bb, idx, s in rd.iter_assigns() if any(isinstance(e, list) and e[0] == "f" and e[2] == "offset" for e in s["p"][1:]) and "o" in s["r"]]
        if len(ix) != 1 or len(adv) != 1:
            raise NoEval("one slice and one offset update in read()")
        if via_get:
            from rules.C17 import variant_arms
            arms = [a_ for sw_, pl_, a_ in variant_arms(rd, "std::option::Option", facts) if re.search(r"::get'", str(flow.expr_of(rd, {"cp": pl_}, max_depth=8))) and "Some" in a_]
            cont = [a_.get("Continue") for sw_, pl_, a_ in variant_arms(rd, "std::ops::ControlFlow", facts)]
            if not any(flow.dominates(rdom, a_["Some"], adv[0][0]) for a_ in arms) and not any(c_ is not None and flow.dominates(rdom, c_, adv[0][0]) for c_ in cont):
                raise NoEval("the offset is advanced on a path on which get() may have returned None")
        for L in range(0, 7):
            for off in range(0, L + 1):
                for sz in range(1, 6):
                    env = {LEN: L, OFF: off, SZ: sz}
                    on = all(OPS[op](ieval(l, env), ieval(r, env)) for tgt, (op, l, r) in reg if flow.dominates(rdom, tgt, ix[0][0]) and op in OPS)
                    if via_get and on:
                        glo, ghi = (ieval(x, env) for x in ix[0][1][2])
                        on = glo <= ghi <= L
                    if on != (off + sz <= L) and bad is None:
                        bad = f"length {L}, offset {off}, size {sz}: read() {'reads' if on else 'refuses'} although the message {'does not fit' if on else 'fits'}"
                    if on:
                        lo, hi = (ieval(x, env) for x in ix[0][1][2])
                        if (lo, hi, ieval(adv[0][1], env)) != (off, off + sz, off + sz) and bad is None:
                            bad = f"length {L}, offset {off}, size {sz}: read() takes [{lo}, {hi}) and moves the offset to {ieval(adv[0][1], env)}"
    except NoEval as exn:
        bad = f"cannot evaluate read() ({exn})"
    ctx.ob("SPARE", "read:slice-and-advance", bad is None, "read() = buf[offset..offset+size] iff it fits; offset += size" if bad is None else bad, site_of(rd))
    rt = [(F.callee(t)[0] or "").split("::")[-1] for bb, t in rp.calls()]
    zr = [1 for bb, idx, s in rp.iter_assigns() if any(isinstance(e, list) and e[0] == "f" and e[2] == "offset" for e in s["p"][1:]) and "o" in s["r"] and flow.expr_of(rp, s["r"]["o"]) == ("const", 0)]
    clr = [t for bb, t in rp.calls() if re.search(r"Vec::<T, A>::(truncate|clear)$", F.callee(t)[0] or "")]
    emptied = len(clr) == 1 and ((F.callee(clr[0])[0] or "").endswith("clear") or flow.expr_of(rp, clr[0]["args"][1]) == ("const", 0))
    ext_ = [t for bb, t in rp.calls() if (F.callee(t)[0] or "").endswith("extend_from_slice")]
    okr = sorted(rt) in (["extend_from_slice", "truncate"], ["clear", "extend_from_slice"]) and rt[-1] == "extend_from_slice" and emptied and len(ext_) == 1 and flow.expr_of(rp, ext_[0]["args"][1]) == ("arg", 2) and bool(zr)
    ctx.ob("SPARE", "replace:resets", okr, "replace(v): offset = 0, buf = v" if okr else "replace() does not reset the buffer to exactly the given bytes at offset 0", site_of(rp))
