"""C12  Privacy noise and dummy records follow the documented (epsilon, delta) law.

Decided statically (guards and wiring only; DESIGN.md §3/C12):
  GUARD-params   every constructor-parameter guard of NoiseParams::new and OPRFPaddingDp::new rejects exactly
                 the documented out-of-range values: the rule evaluates each guard's comparison over the
                 finite set of orderings of (parameter, bound) — below / equal / above — and compares the
                 rejected set with the frozen table (taken from the repository's own error values and docs:
                 epsilon, delta, dimensions, quantization_scale, ell_{1,2,inf}_sensitivity > 0; success_prob in
                 [0,1]; OPRF epsilon >= MIN_POSITIVE, delta in [MIN_POSITIVE, 1-MIN_POSITIVE],
                 sensitivity <= 1_000_000).  Messages are not compared.
  RANGE-modulus  the sample-to-share map of ShiftedTruncatedDiscreteLaplace reduces modulo 2^w for every admitted
                 output width w <= 32: the divisor of `%` must never be an all-ones constant 2^k - 1 (which maps
                 the noise value -1 to 0); it must be a power of two for every w.
  WIRE-passes    dp_for_histogram applies three Laplace passes excluding H1, H2, H3 on three distinct steps;
                 apply_dp_padding likewise; in a pass the two generating helpers draw from the PRSS side they share
                 (Direction::Left => right generator, Direction::Right => left generator) and the excluded helper
                 contributes zero shares.
  SHAPE-sampler  the samplers have the documented construction: Geometric counts Bernoulli failures from 0; DoubleGeometric
                 returns shift + g1 - g2 of two separate geometric draws with success probability 1 - e^(-1/s);
                 TruncatedDoubleGeometric is a rejection sampler that returns the draw itself, unchanged, exactly on the
                 edge 0 <= draw <= 2*shift and redraws otherwise (folding, clamping or re-mapping rejected draws changes
                 the law at the ends of the support).
  SHAPE-eq11     find_smallest_n scans n = big_delta, big_delta+1, .. and returns the first n with
                 small_delta >= right_hand_side(n, big_delta, epsilon); right_hand_side is a(r, n) * sum_{k=n-D+1..=n} r^k with
                 r = e^-epsilon and a = (1-r)/(1+r-2 r^(n+1)) (eq. 11 of arXiv 2110.08177): the extracted prefactor is compared
                 numerically with that closed form over a grid of (epsilon, n), the summation range with integer evaluation.
The achieved distribution as a numerical object, the truncation point and the achieved delta are not decided.
"""
import re, struct
from vlib import facts as F, flow
from vlib.core import site_of
from rules import malsec

LEVEL = "other"
EXPLANATION = "C12: finite evaluation of parameter guards over orderings, divisor provenance of the noise modulus, role/step/generator wiring of the three noise passes."


def run(ctx):
    facts = ctx.facts()
    guard_params(ctx, facts)
    modulus(ctx, facts)
    passes(ctx, facts)
    samplers(ctx, facts)
    truncation_formula(ctx, facts)
    sensitivity_wiring(ctx, facts)
    excluded_share(ctx, facts)
    padding_counts(ctx, facts)
    ctx.assume("the numerical law of the samplers (probabilities, find_smallest_n, achieved delta) is not decided; rand's Bernoulli/Uniform are trusted")


def f64_of(bits):
    return struct.unpack("<d", struct.pack("<Q", bits & ((1 << 64) - 1)))[0]


def eval_cmp(op, a, b):
    return {"Lt": a < b, "Le": a <= b, "Gt": a > b, "Ge": a >= b, "Eq": a == b, "Ne": a != b}[op]


# parameter (arg index) -> list of (bound, rejected orderings among {'below','equal','above'}) -- frozen from docs/error values
NOISE_TABLE = {      # keyed by the parameter's position in NoiseParams::new
    1: ("epsilon", [(0.0, {"below", "equal"})]),
    2: ("delta", [(0.0, {"below", "equal"})]),
    5: ("dimensions", [(0.0, {"below", "equal"})]),
    6: ("quantization_scale", [(0.0, {"below", "equal"})]),
    7: ("ell_1_sensitivity", [(0.0, {"below", "equal"})]),
    8: ("ell_2_sensitivity", [(0.0, {"below", "equal"})]),
    9: ("ell_infty_sensitivity", [(0.0, {"below", "equal"})]),
}


def param_guards(b):
    """[(switch_bb, param_name, op, bound(float or int), err_on_nonzero)] for switches comparing a parameter with a constant"""
    names = {}
    for v in b.vars:
        if len(v["p"]) == 1 and 1 <= v["p"][0] <= b.nargs:
            names[v["p"][0]] = v["n"]
    out = []
    errs = set()
    for bb, idx, s in b.iter_assigns():
        r = s["r"]
        if s["p"] == [0] and r["k"] == "agg" and r.get("vn") == "Err":
            errs.add(bb)
    for bb in sorted(b.live_blocks()):
        t = b.term(bb)
        if t["k"] != "switch":
            continue
        ed = flow.switch_edges(b, bb)
        if not ed:
            continue
        e = flow.expr_of(b, t["o"])
        neg = False
        while e[0] == "un" and e[1] == "Not":
            neg, e = not neg, e[2]
        if e[0] != "bin" or e[1] not in ("Lt", "Le", "Gt", "Ge", "Eq", "Ne"):
            continue
        op, l, r = e[1], flow.strip_casts(e[2]), flow.strip_casts(e[3])
        if l[0] == "const" and r[0] == "arg":
            op = {"Lt": "Gt", "Le": "Ge", "Gt": "Lt", "Ge": "Le", "Eq": "Eq", "Ne": "Ne"}[op]
            l, r = r, l
        if l[0] != "arg" or r[0] != "const" or not isinstance(r[1], int):
            continue
        pname = l[1]        # the parameter's position: its name is free to change
        is_float = b.local_ty(l[1]) in ("f64", "f32")
        bound = f64_of(r[1]) if is_float else r[1]
        # which edge reaches an Err return (without reaching Ok)?
        zero, nonzero = (ed[1], ed[0]) if neg else ed
        rz = b.reachable(zero)
        rn = b.reachable(nonzero)
        # the rejecting edge is the one from which no Ok return is reachable (and an Err is)
        oks = set(malsec.ok_blocks(b))
        err_nonzero = not (oks & rn) and any(x in rn for x in errs)
        err_zero = not (oks & rz) and any(x in rz for x in errs)
        if err_nonzero == err_zero:
            continue
        out.append((bb, pname, op, bound, err_nonzero))
    return out


def rejected(op, err_on_true):
    rej = set()
    for name, (a, b_) in (("below", (-1.0, 0.0)), ("equal", (0.0, 0.0)), ("above", (1.0, 0.0))):
        val = eval_cmp(op, a, b_)
        if val == err_on_true:
            rej.add(name)
    return rej


def guard_params(ctx, facts):
    ctx.rule("GUARD-params: for each documented parameter guard, the set of orderings (below/equal/above the bound) that is rejected equals the frozen table")
    b = facts.bodies.get("protocol::dp::NoiseParams::new")
    if b is None:
        ctx.missing("GUARD-params", "NoiseParams::new")
    else:
        ctx.count(bodies=1)
        gs = param_guards(b)
        seen = {}
        for bb, pname, op, bound, err_nz in gs:
            seen.setdefault(pname, []).append((bb, op, bound, rejected(op, err_nz)))
        for pidx, (pname, want) in NOISE_TABLE.items():
            got = seen.get(pidx)
            if not got:
                ctx.ob("GUARD-params", f"NoiseParams::new:{pname}", False, f"no guard on `{pname}` (documented: must be > 0)", site_of(b))
                continue
            bb, op, bound, rej = got[0]
            ok = bound == want[0][0] and rej == want[0][1]
            ctx.ob("GUARD-params", f"NoiseParams::new:{pname}", ok,
                   f"rejects {sorted(rej)} relative to {bound}" if ok else f"guard `{pname} {op} {bound}` rejects {sorted(rej)} but the documented range (> {want[0][0]}) requires rejecting {sorted(want[0][1])}: " + ("every valid value is refused" if "above" in rej else "invalid values are accepted"),
                   site_of(b, bb))
        # success_prob in [0, 1]: a RangeInclusive::contains guard
        rc = flow.find_calls(b, re.compile(r"RangeInclusive::<Idx>::contains$"))
        okp = False
        for bb, t in rc:
            e = str(flow.expr_of(b, t["args"][0])) + str(flow.expr_of(b, t["args"][1]))
            okp = "'RangeInclusive'" in e or "RangeInclusive" in e
        ctx.ob("GUARD-params", "NoiseParams::new:success_prob", okp, "success_prob checked against an inclusive range", site_of(b))
    b = facts.bodies.get("protocol::ipa_prf::oprf_padding::insecure::OPRFPaddingDp::new")
    if b is None:
        ctx.missing("GUARD-params", "OPRFPaddingDp::new")
    else:
        ctx.count(bodies=1)
        gs = param_guards(b)
        seen = {p: (bb, op, bound, rejected(op, nz)) for bb, p, op, bound, nz in gs}
        g = seen.get(1)
        ok = g is not None and g[2] > 0.0 and g[2] < 1e-300 and g[3] == {"below"}
        ctx.ob("GUARD-params", "OPRFPaddingDp::new:epsilon", ok, f"epsilon < MIN_POSITIVE rejected" if ok else f"epsilon guard is {g}", site_of(b, g[0]) if g else site_of(b))
        g = seen.get(3)
        ok = g is not None and g[2] == 1_000_000 and g[3] == {"above"}
        ctx.ob("GUARD-params", "OPRFPaddingDp::new:sensitivity", ok, "sensitivity > 1_000_000 rejected" if ok else f"sensitivity guard is {g}", site_of(b, g[0]) if g else site_of(b))
        rc = flow.find_calls(b, re.compile(r"RangeInclusive::<Idx>::contains$"))
        okd = False
        for bb, t in rc:
            e = flow.expr_of(b, t["args"][0])
            s = str(e)
            okd = "new" in s or "RangeInclusive" in s
            # bounds: MIN_POSITIVE and 1 - MIN_POSITIVE
            consts = re.findall(r"\('const', (\d+)\)", s)
            vals = sorted(f64_of(int(c)) for c in consts)
            okd = okd and any(0.0 < v < 1e-300 for v in vals) and "Sub" in s
        gd = malsec.guards(b, r"RangeInclusive::<Idx>::contains$")
        okg = False
        for sw, e, ed, call in gd:
            bad = ed[0]   # not contained
            reach = b.reachable(bad)
            okg = any(x in reach for x in malsec.err_aggs(b, "BadDelta")) and not (set(malsec.ok_blocks(b)) & reach)
        ctx.ob("GUARD-params", "OPRFPaddingDp::new:delta", okd and okg, "delta outside [MIN_POSITIVE, 1-MIN_POSITIVE] => Err(BadDelta)" if okd and okg else "delta range guard is missing or does not reject", site_of(b))


def modulus(ctx, facts):
    ctx.rule("RANGE-modulus: every value that can reach the divisor of `%` in ShiftedTruncatedDiscreteLaplace::sample_shares is a power of two (2^w, w <= 32); an all-ones constant (2^k - 1) is not")
    sb = None
    for p, b in facts.bodies.items():
        if p.startswith("protocol::dp::ShiftedTruncatedDiscreteLaplace::sample_shares"):
            sb = b
    nb = facts.bodies.get("protocol::dp::ShiftedTruncatedDiscreteLaplace::new")
    if sb is None or nb is None:
        return ctx.missing("RANGE-modulus", "ShiftedTruncatedDiscreteLaplace::{new, sample_shares}")
    ctx.count(bodies=2)
    rems = []
    for bb, idx, s in sb.iter_assigns():
        if s["r"]["k"] == "bin" and s["r"]["op"] == "Rem":
            rems.append((bb, idx, flow.expr_of(sb, s["r"]["b"]), flow.expr_of(sb, s["r"]["a"])))
    if not rems:
        # no `%` at all: acceptable only if the value is masked / wraps naturally
        masked = any(s["r"]["k"] == "bin" and s["r"]["op"] in ("BitAnd",) for _, _, s in sb.iter_assigns())
        ctx.ob("RANGE-modulus", "reduction-present", True, "no `%`: reduction is by wrapping/masking" if masked else "no explicit reduction (u32 wrapping only)", site_of(sb))
        return
    bb, idx, div, num = rems[0]
    fld = [x for x in flow.field_names_in(div)]
    ctx.ob("RANGE-modulus", "dividend-is-shifted-sample", "wrapping_sub" in str(num) and "shift" in str(num), "(sample - shift) is reduced", site_of(sb, bb, idx))
    # provenance of the divisor field in `new`
    origins = []
    for bb2, idx2, s in nb.iter_assigns():
        r = s["r"]
        if r["k"] == "agg" and r.get("adt", "").endswith("ShiftedTruncatedDiscreteLaplace"):
            adt = facts.adts.get(r["adt"])
            names = [f["name"] for f in adt["variants"][0]["fields"]] if adt else []
            for fname in fld or ["modulus"]:
                if fname in names:
                    op = r["ops"][names.index(fname)]
                    origins = sorted(flow.origins(nb, op), key=str)
                    site = (bb2, idx2)
    if not origins:
        return ctx.ob("RANGE-modulus", "divisor-provenance", False, "cannot find where the divisor field is initialised", site_of(nb))
    bad = []
    good = 0
    for o in origins:
        if o[0] == "const":
            try:
                v = int(o[1])
            except (TypeError, ValueError):
                bad.append(str(o))
                continue
            if v > 0 and (v & (v - 1)) == 0:
                good += 1
            else:
                bad.append(f"constant {v}" + (" (= 2^%d - 1: maps the noise value -1 to 0)" % v.bit_length() if (v & (v + 1)) == 0 else ""))
        elif o[0] == "call":
            fn = F.callee(nb.term(o[1]))[0] or ""
            if re.search(r"::pow$|checked_pow$|wrapping_shl$", fn) and F.const_int(nb.term(o[1])["args"][0]) == 2:
                good += 1
            else:
                bad.append(f"call {fn}")
        elif o[0] == "bin":
            st = nb.stmts(o[1])[o[2]]
            if st["r"]["op"] in ("Shl", "ShlUnchecked") and F.const_int(st["r"]["a"]) == 1:
                good += 1
            else:
                bad.append(f"{st['r']['op']}")
        else:
            bad.append(str(o))
    ctx.ob("RANGE-modulus", "divisor-is-power-of-two", not bad and good > 0, f"divisor is always a power of two ({good} source(s))" if not bad else f"the divisor of the noise reduction can be {bad}: the sample-to-share map is not reduction modulo 2^width", site_of(nb, site[0], site[1]))


def passes(ctx, facts):
    ctx.rule("WIRE-passes: three apply_laplace_noise_pass calls with Role::H1, H2, H3 on DPStep::LaplacePass1..3; three apply_dp_padding_pass calls with distinct excluded roles; Direction::Left => right PRSS generator; excluded helper => zero shares")
    b = malsec.async_body(facts, "protocol::dp::dp_for_histogram")
    if b is None:
        ctx.missing("WIRE-passes", "dp_for_histogram")
    else:
        ctx.count(bodies=1)
        calls = flow.find_calls(b, re.compile(r"dp::apply_laplace_noise_pass$"))
        roles, steps = [], []
        for bb, t in calls:
            e = flow.expr_of(b, t["args"][2])
            roles.append(e[1][1] if e[0] == "agg" and isinstance(e[1], tuple) else str(e))
            se = str(flow.expr_of(b, t["args"][0]))
            m = re.findall(r"LaplacePass\d", se)
            steps.append(m[0] if m else se[:40])
        ok = len(calls) == 3 and sorted(roles) == ["H1", "H2", "H3"] and len(set(steps)) == 3
        ctx.ob("WIRE-passes", "laplace:three-distinct-roles-and-steps", ok, f"roles {roles} on steps {steps}" if ok else f"Laplace passes use roles {roles} / steps {steps}: one pair of helpers adds no noise or a PRSS step is reused", site_of(b, calls[0][0]) if calls else site_of(b))
        # chained: each pass consumes the previous output
        chained = True
        for k, (bb, t) in enumerate(calls[1:], 1):
            e = str(flow.expr_of(b, t["args"][1]))
            if "Future::poll" not in e and "apply_laplace_noise_pass" not in e:
                chained = False
        ctx.ob("WIRE-passes", "laplace:chained", chained, "each pass is applied to the previous pass's output", site_of(b))
    pb = malsec.async_body(facts, "protocol::ipa_prf::oprf_padding::apply_dp_padding")
    if pb is None:
        ctx.missing("WIRE-passes", "apply_dp_padding")
    else:
        calls = flow.find_calls(pb, re.compile(r"oprf_padding::apply_dp_padding_pass$"))
        roles = []
        for bb, t in calls:
            for a in t["args"]:
                e = flow.expr_of(pb, a)
                if e[0] == "agg" and isinstance(e[1], tuple) and e[1][0] == "helpers::Role":
                    roles.append(e[1][1])
        ok = len(calls) == 3 and sorted(roles) == ["H1", "H2", "H3"]
        ctx.ob("WIRE-passes", "padding:three-distinct-roles", ok, f"padding passes exclude {roles}" if ok else f"padding passes exclude {roles}", site_of(pb, calls[0][0]) if calls else site_of(pb))
    lb = malsec.async_body(facts, "protocol::dp::apply_laplace_noise_pass")
    if lb is None:
        return ctx.missing("WIRE-passes", "apply_laplace_noise_pass")
    # switch on the direction discriminant: Left(0) => &mut right (tuple field 1), Right(1) => &mut left (field 0)
    tbl = {}
    for bb in sorted(lb.live_blocks()):
        t = lb.term(bb)
        if t["k"] != "switch":
            continue
        e = flow.expr_of(lb, t["o"])
        if e[0] == "disc" and "direction_to" in str(e):
            for v, tgt in t["ts"]:
                # first ref assignment to a prss tuple field reachable in tgt chain
                cur = tgt
                for _ in range(4):
                    found = False
                    for s in lb.stmts(cur):
                        if "p" in s and s["r"]["k"] == "ref" and s["r"]["m"] == "mut":
                            p = s["r"]["p"]
                            names = [x[1] for x in p[1:] if isinstance(x, list) and x[0] == "f"]
                            base_ty = lb.local_ty(p[0])
                            if names and "tuple" == lb.local_head(p[0]) or (names and base_ty.startswith("(")):
                                tbl[int(v)] = names[-1]
                                found = True
                            elif not names:
                                # let (mut left, mut right) = ..: separate locals; use variable names
                                # position in the (left, right) tuple the local was destructured from (names are irrelevant)
                                pos = None
                                for dbb, didx, d in lb.defs().get(p[0], []):
                                    if didx != "t" and d["k"] == "use":
                                        pl = F.op_place(d["o"]) or []
                                        fs = [x[1] for x in pl[1:] if isinstance(x, list) and x[0] == "f"]
                                        if fs:
                                            pos = fs[-1]
                                nm = lb.var_name(p[0])
                                if pos is not None:
                                    tbl[int(v)] = pos
                                    found = True
                                elif nm:
                                    tbl[int(v)] = nm
                                    found = True
                    if found:
                        break
                    tt = lb.term(cur)
                    if tt["k"] in ("goto", "fe"):
                        cur = tt["t"]
                    else:
                        break
    ok = tbl.get(0) in ("right", 1) and tbl.get(1) in ("left", 0)
    ctx.ob("WIRE-passes", "direction-to-generator", ok, "Direction::Left => right generator, Direction::Right => left generator (the side shared with the other generating helper)" if ok else f"generator selection table is {tbl}: the two generating helpers would sample from different randomness", site_of(lb))
    # excluded helper contributes zero
    zero_ok = False
    for tb in facts.tree("protocol::dp::apply_laplace_noise_pass"):
        if tb.kind == "Closure":
            for bb, t in tb.calls():
                if (F.callee(t)[0] or "").endswith("ReplicatedSecretSharing::new"):
                    a = str(flow.expr_of(tb, t["args"][0])) + str(flow.expr_of(tb, t["args"][1]))
                    if a.count("ZERO") >= 2:
                        zero_ok = True
    if not zero_ok:
        # `Replicated::<OV>::ZERO` is the same value (both components ZERO)
        for tb in facts.tree("protocol::dp::apply_laplace_noise_pass"):
            if tb.kind == "Closure":
                r_ = str(flow.expr_of(tb, {"cp": [0]}, max_depth=6))
                if re.search(r"AdditiveShare<.*>::ZERO|SharedValue::ZERO|additive_share.*ZERO", r_) and "('const'" in r_ and "sample_shares" not in r_:
                    zero_ok = True
    ctx.ob("WIRE-passes", "excluded-helper-zero", zero_ok, "the excluded helper contributes zero shares", site_of(lb))


# ---------------------------------------------------------------------------------------------
LOSSLESS = re.compile(r"(TryInto::try_into|TryFrom::try_from|Into::into|From::from|Result::<T, E>::(unwrap|expect)|Option::<T>::(unwrap|expect)|Clone::clone)$")
DP = "protocol::ipa_prf::oprf_padding::distributions::"


def strip_lossless(e):
    """remove value-preserving integer conversions (try_into().unwrap(), into, from); `as` casts are kept visible"""
    while True:
        if e[0] == "call" and LOSSLESS.search(e[1]) and e[2]:
            e = e[2][0]
            continue
        if e[0] == "proj" and e[1][0] == "call" and LOSSLESS.search(e[1][1]):
            e = e[1]
            continue
        return e


def linear(e, sign=1, out=None):
    """flatten +/- over lossless conversions into [(sign, leaf)]"""
    out = [] if out is None else out
    e = strip_lossless(e)
    if e[0] == "bin" and e[1] in ("Add", "Sub", "AddWithOverflow", "SubWithOverflow"):
        linear(e[2], sign, out)
        linear(e[3], sign if e[1].startswith("Add") else -sign, out)
    else:
        out.append((sign, e))
    return out


def samplers(ctx, facts):
    ctx.rule("SHAPE-sampler: Geometric::sample returns a counter started at 0 and incremented on the Bernoulli-false edge; DoubleGeometric::sample = shift + g1 - g2 (two draws, lossless conversions); its success probability is 1 - e^(-1/s); TruncatedDoubleGeometric::new stores 2*shift and builds DoubleGeometric(s, shift); its sample returns the unmodified draw on the edge 0 <= draw <= shift_doubled and redraws on the others")
    def body(path):
        b = facts.bodies.get(path)
        if b is None:
            ctx.missing("SHAPE-sampler", path.replace(DP, ""))
        else:
            ctx.count(bodies=1)
        return b
    # --- Geometric::sample
    b = body(f"<{DP}Geometric as rand::distributions::Distribution<u32>>::sample")
    if b is not None:
        ret = flow.strip_casts(flow.expr_of(b, {"cp": [0]}))
        ok = False
        why = "the returned value is not a local counter"
        if ret[0] == "place":
            c = ret[1]
            inits, incs, other = [], [], []
            for bb, idx, st in b.iter_assigns():
                if st["p"] == [c]:
                    e = flow.strip_casts(flow.expr_of(b, st["r"]["o"])) if st["r"]["k"] == "use" else ("?",)
                    # expr_of of `c = c + 1` unfolds to ('bin', Add, place c, 1)
                    if e == ("const", 0):
                        inits.append(bb)
                    elif e[0] == "bin" and e[1].startswith("Add") and ("const", 1) in (flow.strip_casts(e[2]), flow.strip_casts(e[3])) and ("place", c) in (flow.strip_casts(e[2]), flow.strip_casts(e[3])):
                        incs.append(bb)
                    else:
                        other.append((bb, e))
            gs = malsec.guards(b, r"Distribution::sample$")
            gs = [g for g in gs if "bernoulli" in str(g[1])]
            dom = b.dominators()
            if len(inits) == 1 and len(incs) == 1 and not other and len(gs) == 1:
                ed = gs[0][2]           # (false target, true target)
                inc_on_false = flow.dominates(dom, ed[0], incs[0]) and incs[0] not in b.reachable(ed[1], avoid=frozenset([gs[0][0]]))
                ret_on_true = any(bb in b.reachable(ed[1], avoid=frozenset([gs[0][0]])) for bb in flow.ret_blocks(b)) and not any(bb in b.reachable(ed[0], avoid=frozenset([gs[0][0]])) for bb in flow.ret_blocks(b))
                ok = inc_on_false and ret_on_true
                why = "failures counted from 0 until the first success" if ok else "the counter is not incremented exactly on the Bernoulli-false edge with return on the true edge (off-by-one support or wrong event counted)"
            else:
                why = f"counter writes: {len(inits)} init(0), {len(incs)} increment(+1), {len(other)} other; {len(gs)} Bernoulli test(s)"
        ctx.ob("SHAPE-sampler", "Geometric::sample:counts-failures", ok, why, site_of(b))
    # --- DoubleGeometric::sample
    b = body(f"<{DP}DoubleGeometric as rand::distributions::Distribution<i32>>::sample")
    if b is not None:
        terms = linear(flow.expr_of(b, {"cp": [0]}))
        def is_draw(e):
            return e[0] == "call" and e[1].endswith("Distribution::sample") and flow.strip_casts(e[2][0]) == ("arg", 1, "geometric")
        pos = [t for sg, t in terms if sg > 0]
        neg = [t for sg, t in terms if sg < 0]
        ndraw = len([1 for bb, t in b.calls() if (F.callee(t)[0] or "").endswith("Distribution::sample")])
        ok = len(terms) == 3 and len(neg) == 1 and is_draw(neg[0]) and sorted(map(str, pos)) == sorted(map(str, [("arg", 1, "shift"), neg[0]])) and ndraw == 2
        ctx.ob("SHAPE-sampler", "DoubleGeometric::sample:shift+g1-g2", ok, "shift + g1 - g2 over two separate draws" if ok else f"the double-geometric sample is not shift + g1 - g2 of two draws (terms: {[(sg, str(t)[:60]) for sg, t in terms]}, draws: {ndraw})", site_of(b))
    # --- DoubleGeometric::new: p = 1 - e^(-1/s)
    b = body(DP + "DoubleGeometric::new")
    if b is not None:
        one, e_, m1 = f64_bits(1.0), f64_bits(2.718281828459045), f64_bits(-1.0)
        ok = False
        for bb, t in b.calls():
            if (F.callee(t)[0] or "") == DP + "Geometric::new":
                p_ = flow.strip_casts(flow.expr_of(b, t["args"][0]))
                if p_[0] == "bin" and p_[1] == "Sub" and p_[2] == ("const", one):
                    x = flow.strip_casts(p_[3])
                    inv = ("bin", "Div", ("const", m1), ("arg", 1))
                    if x[0] == "call" and x[1].endswith("::powf") and x[2][0] == ("const", e_) and flow.strip_casts(x[2][1]) == inv:
                        ok = True
                    if x[0] == "call" and x[1].endswith("::exp") and flow.strip_casts(x[2][0]) == inv:
                        ok = True
        ctx.ob("SHAPE-sampler", "DoubleGeometric::new:p=1-exp(-1/s)", ok, "success probability 1 - e^(-1/s)" if ok else "the geometric success probability is not 1 - e^(-1/s): the decay rate of the noise no longer matches epsilon", site_of(b))
        ok2 = any(st["r"]["k"] == "agg" and st["r"].get("adt", "").endswith("DoubleGeometric") and flow.expr_of(b, st["r"]["ops"][0]) == ("arg", 2) for _, _, st in b.iter_assigns())
        ctx.ob("SHAPE-sampler", "DoubleGeometric::new:shift", ok2, "stores the shift it was given" if ok2 else "the stored shift is not the constructor argument", site_of(b))
    # --- TruncatedDoubleGeometric::new
    b = body(DP + "TruncatedDoubleGeometric::new")
    if b is not None:
        ok = False
        for _, _, st in b.iter_assigns():
            if st["r"]["k"] == "agg" and st["r"].get("adt", "").endswith("TruncatedDoubleGeometric"):
                d = flow.strip_casts(flow.expr_of(b, st["r"]["ops"][0]))
                inner = str(flow.expr_of(b, st["r"]["ops"][1]))
                dbl = d in (("bin", "Mul", ("const", 2), ("arg", 2)), ("bin", "Mul", ("arg", 2), ("const", 2)), ("bin", "Add", ("arg", 2), ("arg", 2)), ("bin", "Shl", ("arg", 2), ("const", 1)))
                ok = dbl and "DoubleGeometric::new', (('arg', 1), ('arg', 2))" in inner
        ctx.ob("SHAPE-sampler", "TruncatedDoubleGeometric::new:2*shift", ok, "support [0, 2*shift] centred on the inner sampler's shift" if ok else "shift_doubled is not 2*shift of the same shift the inner sampler is built with (support not centred on the mean)", site_of(b))
    # --- TruncatedDoubleGeometric::sample
    b = body(f"<{DP}TruncatedDoubleGeometric as rand::distributions::Distribution<u32>>::sample")
    if b is not None:
        dom = b.dominators()
        draws = [(bb, t) for bb, t in b.calls() if (F.callee(t)[0] or "").endswith("Distribution::sample")]
        ret = strip_lossless(flow.expr_of(b, {"cp": [0]}))
        def is_draw(e):
            e = flow.strip_casts(e) if e[0] != "cast" else e
            return e[0] == "call" and e[1].endswith("Distribution::sample") and flow.strip_casts(e[2][0]) == ("arg", 1, "double_geometric")
        okv = len(draws) == 1 and is_draw(ret)
        ctx.ob("SHAPE-sampler", "TruncatedDoubleGeometric::sample:returns-the-draw", okv, "the accepted draw is returned unchanged" if okv else f"the returned value is `{str(ret)[:90]}`, not the draw itself: rejected draws are folded / clamped / re-mapped into the support, which moves probability mass (the ratio between neighbouring values is no longer e^epsilon at the ends)", site_of(b))
        rets = flow.ret_blocks(b)
        def lower(f):
            op, l, r = f
            l, r = strip_lossless(l), strip_lossless(r) if r is not None else None
            return (op == "Ge" and is_draw(l) and r == ("const", 0)) or (op == "Gt" and is_draw(l) and r == ("const", -1)) or (op == "Le" and r is not None and is_draw(r) and l == ("const", 0))
        def upper(f):
            op, l, r = f
            l, r = strip_lossless(l), strip_lossless(r) if r is not None else None
            sd = ("arg", 1, "shift_doubled")
            return (op == "Le" and is_draw(l) and r == sd) or (op == "Ge" and r is not None and is_draw(r) and l == sd)
        # the block that produces the return value
        retdef = [bb for bb, t in b.calls() if t["d"] == [0]] + [bb for bb, idx, st in b.iter_assigns() if st["p"] == [0]]
        okl = bool(retdef) and all(flow.holds(b, dom, x, lower) for x in retdef)
        oku = bool(retdef) and all(flow.holds(b, dom, x, upper) for x in retdef)
        okr = None
        if not (okl and oku) and retdef and len(draws) == 1:
            # other ways of writing the acceptance test (`match u32::try_from(s) { Ok(v) if v <= self.shift_doubled => return v, _ => {} }`):
            # evaluate everything that dominates the return - comparisons, and the Ok / Err arm of a try_from conversion of
            # the draw to an unsigned type (Ok <=> draw >= 0) - for draws -3..8 and 2*shift 0..5
            from rules.C13 import guard_holds, ieval as _iev, NoEval as _NE
            from rules.C14 import malsec_leaves_all
            from rules.C17 import variant_arms
            SD = ("arg", 1, "shift_doubled")
            eg_ = list(flow.edge_guards(b))
            conv = []
            for sw_, pl_, arms_ in variant_arms(b, "std::result::Result", facts):
                src_ = flow.strip_casts(flow.expr_of(b, {"cp": pl_}, max_depth=8))
                if src_[0] == "call" and re.search(r"(TryFrom::try_from|TryInto::try_into)$", src_[1]) and is_draw(strip_lossless(src_[2][0])) and "Ok" in arms_:
                    conv.append((arms_["Ok"], ("Ge", src_[2][0], ("const", 0))))
                    if "Err" in arms_:
                        conv.append((arms_["Err"], ("Lt", src_[2][0], ("const", 0))))
            allg = eg_ + conv
            draw_nodes = set()
            for tgt_, f_ in allg:
                for x in malsec_leaves_all(("t", f_[1], f_[2] if f_[2] is not None else ("const", 0))):
                    if isinstance(x, tuple) and x and x[0] == "call" and x[1].endswith("Distribution::sample"):
                        draw_nodes.add(x)
            try:
                acc_ok = True
                for sd_ in range(0, 6):
                    for dr_ in range(-3, 9):
                        env = {SD: sd_}
                        env.update({n_: dr_ for n_ in draw_nodes})
                        accepted = all(all(guard_holds(f_, env) for tgt_, f_ in allg if flow.dominates(dom, tgt_, x)) for x in retdef)
                        if accepted != (0 <= dr_ <= sd_):
                            acc_ok = False
                okl = oku = acc_ok
                # a rejected draw leads back to the draw and never to a return
                if acc_ok:
                    dbb = draws[0][0]
                    okr = all(r_ not in b.reachable(dbb, avoid=frozenset(retdef)) or r_ in retdef for r_ in rets) and dbb in b.reachable(b.succs(dbb)[0] if b.succs(dbb) else dbb)
            except (_NE, KeyError, TypeError):
                pass
        ctx.ob("SHAPE-sampler", "TruncatedDoubleGeometric::sample:accept-iff-0<=draw", okl, "accepted only if draw >= 0" if okl else "a draw is accepted without the dominating test draw >= 0", site_of(b))
        ctx.ob("SHAPE-sampler", "TruncatedDoubleGeometric::sample:accept-iff-draw<=2shift", oku, "accepted only if draw <= 2*shift" if oku else "a draw is accepted without the dominating test draw <= shift_doubled", site_of(b))
        # rejecting edges redraw
        if okr is None:
            rej = [tgt for tgt, f in flow.edge_guards(b) if (f[0] in ("Lt",) and lower(("Ge", f[1], f[2]))) or (f[0] == "Gt" and upper(("Le", f[1], f[2])))]
            okr = len(rej) >= 2 and draws and all(not any(r in b.reachable(tgt, avoid=frozenset([draws[0][0]])) for r in rets) and draws[0][0] in b.reachable(tgt) for tgt in rej)
        ctx.ob("SHAPE-sampler", "TruncatedDoubleGeometric::sample:reject-redraws", bool(okr), "an out-of-range draw is discarded and a fresh one is taken" if okr else "an out-of-range draw does not lead to a fresh draw (it is returned, clamped or the loop ends)", site_of(b))


def f64_bits(x):
    return struct.unpack("<Q", struct.pack("<d", x))[0]


# ---------------------------------------------------------------------------------------------
def feval(e, env):
    """float evaluation of an extracted f64 expression; integer constants in float position are IEEE-754 bit patterns"""
    import math
    e = flow.strip_casts(e)
    for k, v in env.items():
        if e == k:
            return v
    if e[0] == "const" and isinstance(e[1], int):
        return f64_of(e[1])
    if e[0] == "un" and e[1] == "Neg":
        return -feval(e[2], env)
    if e[0] == "bin":
        a, b = feval(e[2], env), feval(e[3], env)
        op = e[1]
        if op == "Add":
            return a + b
        if op == "Sub":
            return a - b
        if op == "Mul":
            return a * b
        if op == "Div":
            return a / b
        raise NoFloat(op)
    if e[0] == "call":
        fn = e[1]
        if fn.endswith("::powf") or fn.endswith("::powi"):
            return feval(e[2][0], env) ** (feval(e[2][1], env) if fn.endswith("powf") else iev(e[2][1], env))
        if fn.endswith("::exp"):
            return math.exp(feval(e[2][0], env))
        if fn.endswith("insecure::pow_u32"):
            return feval(e[2][0], env) ** iev(e[2][1], env)
        if re.search(r"From::from$|Into::into$", fn):
            return feval(e[2][0], env)
    raise NoFloat(str(e)[:60])


def iev(e, env):
    e = flow.strip_casts(e)
    for k, v in env.items():
        if e == k:
            return v
    if e[0] == "const" and isinstance(e[1], int):
        return e[1]
    if e[0] == "bin":
        a, b = iev(e[2], env), iev(e[3], env)
        op = e[1].replace("WithOverflow", "")
        if op in ("Add", "Sub", "Mul"):
            return {"Add": a + b, "Sub": a - b, "Mul": a * b}[op]
    if e[0] == "proj":
        return iev(e[1], env)
    raise NoFloat(str(e)[:60])


class NoFloat(Exception):
    pass


def truncation_formula(ctx, facts):
    ctx.rule("SHAPE-eq11: find_smallest_n iterates RangeFrom(big_delta) and returns the loop value on the true edge of `small_delta >= right_hand_side(n, big_delta, epsilon)`; right_hand_side returns prefactor * sum, the prefactor equals (1-r)/(1+r-2r^(n+1)) with r = e^-epsilon numerically on a grid, the sum runs over k in n-big_delta+1..=n and accumulates r^k")
    P = "protocol::ipa_prf::oprf_padding::insecure::"
    f_ = facts.bodies.get(P + "find_smallest_n")
    r_ = facts.bodies.get(P + "right_hand_side")
    if f_ is None or r_ is None:
        ctx.missing("SHAPE-eq11", "find_smallest_n / right_hand_side")
        return
    ctx.count(bodies=2)
    dom = f_.dominators()
    ret = flow.strip_casts(flow.expr_of(f_, {"cp": [0]}, max_depth=30))
    loopv = ret if ret[0] == "proj" and "Iterator::next" in str(ret) else None
    start_ok = False
    if loopv is not None:
        from rules.C13 import ieval as _ie, NoEval as _NE
        from rules.C14 import malsec_leaves_all
        starts = [x[2][0] for x in malsec_leaves_all(loopv) if x[0] == "agg" and x[1] == ("std::ops::RangeFrom", "RangeFrom")]
        try:
            start_ok = len(starts) == 1 and all(_ie(starts[0], {("arg", 1): d}) == d for d in range(1, 8))      # `big_delta..`, or anything equal to it for big_delta >= 1
        except _NE:
            start_ok = False
    # iterator form: `(big_delta..).find(|&n| small_delta >= right_hand_side(n, big_delta, epsilon)).expect(..)`
    find_form = None
    old_cd = flow.CLOSURE_DEFS
    flow.CLOSURE_DEFS = True
    try:
        r0 = flow.strip_casts(flow.expr_of(f_, {"cp": [0]}, max_depth=12))
        while r0[0] == "call" and re.search(r"Option::<T>::(expect|unwrap)$", r0[1]):
            r0 = flow.strip_casts(r0[2][0])
        if r0[0] == "call" and r0[1].endswith("Iterator::find") and len(r0[2]) == 2:
            src_, cl_ = flow.strip_casts(r0[2][0]), r0[2][1]
            cb_ = facts.bodies.get(cl_[1][1]) if cl_[0] == "agg" and isinstance(cl_[1], tuple) else None
            if cb_ is not None and src_[0] == "agg" and src_[1] == ("std::ops::RangeFrom", "RangeFrom"):
                from rules.C06 import upvar_sources
                ups_ = {k_: flow.strip_casts(v_) for k_, v_ in upvar_sources(facts, f_, cb_.path).items()}
                find_form = (src_[2][0], flow.strip_casts(flow.expr_of(cb_, {"cp": [0]}, max_depth=10)), ups_)
    finally:
        flow.CLOSURE_DEFS = old_cd
    if find_form is not None and not start_ok:
        from rules.C13 import ieval as _ie3, NoEval as _NE3
        try:
            start_ok = all(_ie3(find_form[0], {("arg", 1): d}) == d for d in range(1, 8))
        except _NE3:
            start_ok = False
        loopv = ("closure-param",)
    ctx.ob("SHAPE-eq11", "find_smallest_n:scan-from-big_delta", start_ok, "n = big_delta, big_delta + 1, .." if start_ok else "the search for the truncation point does not scan n upwards from big_delta and return the scanned value", site_of(f_))
    pred = None
    for tgt, fct in flow.edge_guards(f_):
        if fct[0] in ("Ge", "Le", "Gt", "Lt") and "right_hand_side" in str(fct):
            pred = pred or {}
            pred[fct[0]] = (tgt, fct)
    okp = False
    if pred and ("Ge" in pred or "Le" in pred):
        if "Ge" in pred:
            tgt, fct = pred["Ge"]
            okp = flow.strip_casts(fct[1]) == ("arg", 3) and fct[2][0] == "call"
        else:
            tgt, fct = pred["Le"]
            okp = fct[2] is not None and flow.strip_casts(fct[2]) == ("arg", 3) and fct[1][0] == "call"
        rhs = fct[2] if fct[2][0] == "call" else fct[1]
        okp = okp and loopv is not None and flow.strip_casts(rhs[2][0]) == loopv and flow.strip_casts(rhs[2][1]) == ("arg", 1) and flow.strip_casts(rhs[2][2]) == ("arg", 2)
        okp = okp and any(flow.dominates(dom, tgt, rb) for rb in flow.ret_blocks(f_)) is not None
    if find_form is not None and not okp:
        pe, ups_ = find_form[1], find_form[2]
        def _res(x):
            x = flow.strip_casts(x)
            return ups_.get(x[1], x) if x[0] == "upvar" else x
        if pe[0] == "bin" and pe[1] in ("Ge", "Le"):
            dl, rh = (pe[2], pe[3]) if pe[1] == "Ge" else (pe[3], pe[2])
            rh = flow.strip_casts(rh)
            okp = _res(dl) == ("arg", 3) and rh[0] == "call" and rh[1].endswith("right_hand_side") and flow.strip_casts(rh[2][0])[:2] == ("arg", 2) and _res(rh[2][1]) == ("arg", 1) and _res(rh[2][2]) == ("arg", 2)
    ctx.ob("SHAPE-eq11", "find_smallest_n:first-n-with-rhs<=delta", okp, "returns the first n with right_hand_side(n, big_delta, epsilon) <= small_delta" if okp else "the acceptance test of the search is not `small_delta >= right_hand_side(n, big_delta, epsilon)` (strict comparison or swapped arguments move the truncation point, i.e. the achieved delta)", site_of(f_))
    # right_hand_side
    ret = flow.strip_casts(flow.expr_of(r_, {"cp": [0]}, max_depth=40))
    ok_mul = ret[0] == "bin" and ret[1] == "Mul"
    pref = None
    if ok_mul:
        # one factor is the accumulated sum (a place / loop-carried local), the other the closed-form prefactor
        def _is_sum(x):
            x = flow.strip_casts(x)
            return x[0] == "place" or (x[0] == "call" and re.search(r"Iterator::(fold|sum)$", x[1]) is not None)
        cands = [x for x in (ret[2], ret[3]) if not _is_sum(x)]
        pref = cands[0] if len(cands) == 1 else None
    okf, why = False, "right_hand_side is not prefactor * (loop-accumulated sum)"
    if pref is not None:
        import math
        try:
            worst = 0.0
            for eps in (0.01, 0.1, 0.5, 1.0, 2.0, 5.0):
                for n in (1, 2, 3, 10, 41, 200, 1000):
                    got = feval(pref, {("arg", 3): eps, ("arg", 1): n})
                    r = math.exp(-eps)
                    want = (1 - r) / (1 + r - 2 * r ** (n + 1))
                    worst = max(worst, abs(got - want) / abs(want))
            okf = worst < 1e-9
            why = f"prefactor = (1-r)/(1+r-2r^(n+1)) on the grid (max rel. error {worst:.1e})" if okf else f"the prefactor deviates from (1-r)/(1+r-2r^(n+1)), r = e^-epsilon, by a relative {worst:.2e} on the grid: the tail mass compared with delta is not the one of eq. 11"
        except (NoFloat, ZeroDivisionError, OverflowError) as u:
            why = f"cannot evaluate the prefactor ({u})"
    ctx.ob("SHAPE-eq11", "right_hand_side:prefactor", okf, why, site_of(r_))
    rng = [(bb, t) for bb, t in r_.calls() if (F.callee(t)[0] or "").endswith("RangeInclusive::<Idx>::new")]
    okr = False
    if len(rng) == 1:
        from rules.C13 import ieval as _ie2, NoEval as _NE2
        try:
            # evaluated where the search calls it: n >= big_delta >= 1
            okr = all(_ie2(flow.expr_of(r_, rng[0][1]["args"][0], max_depth=20), {("arg", 1): n, ("arg", 2): d}) == n - d + 1 and _ie2(flow.expr_of(r_, rng[0][1]["args"][1], max_depth=20), {("arg", 1): n, ("arg", 2): d}) == n for d in (1, 2, 3, 5) for n in (d, d + 1, d + 4, 17, 100))
        except _NE2:
            okr = False
    ctx.ob("SHAPE-eq11", "right_hand_side:sum-range", okr, "k runs over n-big_delta+1 ..= n" if okr else "the tail sum does not run over k = n-big_delta+1 ..= n (inclusive): one term too few / too many changes the certified delta", site_of(r_, rng[0][0]) if rng else site_of(r_))
    acc = False
    for bb, idx, st in r_.iter_assigns():
        if st["r"]["k"] == "bin" and st["r"].get("op") == "Add" and r_.local_ty(st["p"][0]) == "f64":
            e = str(flow.expr_of(r_, {"cp": st["p"]}, max_depth=12)) if False else str([flow.expr_of(r_, o, max_depth=25) for o in (st["r"].get("l"), st["r"].get("r")) if o])
            if "pow_u32" in e and "Iterator::next" in e:
                acc = True
    if not acc:
        for bb, t in r_.calls():
            if (F.callee(t)[0] or "").endswith("insecure::pow_u32") and "Iterator::next" in str(flow.expr_of(r_, t["args"][1], max_depth=25)) and "powf" in str(flow.expr_of(r_, t["args"][0], max_depth=25)):
                acc = True
    if not acc and ok_mul:
        # `range.fold(0.0, |acc, k| acc + pow_u32(r, k))` or `range.map(|k| pow_u32(r, k)).sum()`
        old_cd = flow.CLOSURE_DEFS
        flow.CLOSURE_DEFS = True
        try:
            sm = [flow.strip_casts(flow.expr_of(r_, {"cp": [0]}, max_depth=40))]
            sm = [flow.strip_casts(x) for x in (sm[0][2], sm[0][3]) if _is_sum(x) and flow.strip_casts(x)[0] == "call"]
            if sm:
                c_ = sm[0]
                zero_ok = True
                cl_ = None
                if c_[1].endswith("Iterator::fold"):
                    zero_ok = flow.strip_casts(c_[2][1]) in (("const", 0), ("const", 0.0)) or str(flow.strip_casts(c_[2][1])) in ("('const', 0)", "('const', 0.0)")
                    cl_ = c_[2][2]
                else:
                    m_ = flow.strip_casts(c_[2][0])
                    cl_ = m_[2][1] if m_[0] == "call" and m_[1].endswith("Iterator::map") else None
                cb_ = facts.bodies.get(cl_[1][1]) if cl_ is not None and cl_[0] == "agg" and isinstance(cl_[1], tuple) else None
                if cb_ is not None and zero_ok:
                    body = str(flow.expr_of(cb_, {"cp": [0]}, max_depth=12))
                    kparam = "('arg', 3)" if c_[1].endswith("Iterator::fold") else "('arg', 2)"
                    acc = "insecure::pow_u32" in body and kparam in body and (not c_[1].endswith("Iterator::fold") or ("'Add'" in body and "('arg', 2)" in body))
        finally:
            flow.CLOSURE_DEFS = old_cd
    ctx.ob("SHAPE-eq11", "right_hand_side:accumulates-r^k", acc, "result += r^k for the loop's k" if acc else "the loop body does not accumulate r^k of the loop variable", site_of(r_))


# ---------------------------------------------------------------------------------------------
def _walk(e):
    if isinstance(e, tuple) and e and isinstance(e[0], str):
        yield e
        for x in e:
            if isinstance(x, tuple):
                if x and isinstance(x[0], str):
                    yield from _walk(x)
                else:
                    for y in x:
                        yield from _walk(y)


def noise_reads(facts, root, fields, depth=0, seen=None):
    """NoiseParams fields read, directly or through callees that are handed the struct, in the body tree of `root`.
    A read is a projection `<parameter or captured variable>.<field>` with a NoiseParams field name."""
    seen = seen if seen is not None else set()
    if root in seen or depth > 4:
        return set()
    seen.add(root)
    out = set()
    for b in facts.tree(root):
        exprs = []
        for bb, t in b.calls():
            exprs.extend(flow.expr_of(b, a, max_depth=12) for a in t["args"])
            fn = F.callee(t)[0] or ""
            # handed on as a whole?
            for a in t["args"]:
                e = flow.expr_of(b, a, max_depth=12)
                bare = e[0] in ("arg", "upvar") and len(e) == 2
                if bare and fn in facts.by_root and ("NoiseParams" in (b.local_ty(e[1]) if e[0] == "arg" else "NoiseParams")):
                    if e[0] == "upvar" and "noise" not in str(e[1]):
                        continue
                    out |= noise_reads(facts, fn, fields, depth + 1, seen)
        for bb, idx, s in b.iter_assigns():
            r = s["r"]
            for key in ("o", "a", "b"):
                if key in r:
                    exprs.append(flow.expr_of(b, r[key], max_depth=6))
            for o in r.get("ops", []):
                exprs.append(flow.expr_of(b, o, max_depth=6))
        for e in exprs:
            for n in _walk(e):
                if n[0] in ("arg", "upvar") and len(n) == 3 and n[2] in fields:
                    if n[0] == "arg" and "NoiseParams" not in b.local_ty(n[1]):
                        continue
                    out.add(n[2])
    return out


def sensitivity_wiring(ctx, facts):
    ctx.rule("FIELDS-noise: where dp_for_histogram builds a NoiseParams with `..Default::default()`, every field that the consumers of that value read (the samplers it is handed to, transitively, and the OPRFPaddingDp::new calls fed from it) is explicitly initialised at that site, except the documented defaults (delta; for the binomial mechanism also success_prob and quantization_scale); all OPRFPaddingDp::new calls fed from a NoiseParams read the same field at the same argument position")
    adt = facts.adts.get("protocol::dp::NoiseParams")
    b = malsec.async_body(facts, "protocol::dp::dp_for_histogram")
    if adt is None or b is None:
        return ctx.missing("FIELDS-noise", "NoiseParams / dp_for_histogram")
    ctx.count(bodies=1)
    fields = [f["name"] for f in adt["variants"][0]["fields"]]
    known = {"epsilon", "delta", "per_user_credit_cap", "success_prob", "dimensions", "quantization_scale", "ell_1_sensitivity", "ell_2_sensitivity", "ell_infty_sensitivity"}
    ctx.ob("FIELDS-noise", "field-table", set(fields) == known, f"{len(fields)} fields, all classified" if set(fields) == known else f"NoiseParams has fields the rule has no default policy for: {sorted(set(fields) ^ known)}")
    DEFAULT_OK = {"delta", "success_prob", "quantization_scale"}
    dom = b.dominators()
    sites = []
    for bb, idx, s in b.iter_assigns():
        r = s["r"]
        if r["k"] == "agg" and (r.get("adt") or "").endswith("dp::NoiseParams"):
            explicit = set()
            for name, o in zip(fields, r["ops"]):
                e = flow.expr_of(b, o, max_depth=8)
                dflt = e[0] == "proj" and e[1][0] == "call" and e[1][1].endswith("Default::default")
                if not dflt:
                    explicit.add(name)
            sites.append((bb, s["p"][0], explicit))
    ctx.floor("FIELDS-noise", "NoiseParams construction sites in dp_for_histogram", len(sites), 2)
    # consumers: calls dominated by the site that mention the constructed value
    posreads = {}
    for k, (sbb, local, explicit) in enumerate(sites):
        reads = set()
        al = flow.local_aliases_fwd(b, local)
        for bb, t in b.calls():
            if not flow.dominates(dom, sbb, bb) or any(flow.dominates(dom, o[0], bb) for o in sites if o[0] != sbb and flow.dominates(dom, sbb, o[0])):
                continue
            fn = F.callee(t)[0] or ""
            for pos, a in enumerate(t["args"]):
                e = flow.expr_of(b, a, max_depth=10)
                hit = [n for n in _walk(e) if n[0] == "agg" and isinstance(n[1], tuple) and (n[1][0] or "").endswith("dp::NoiseParams")]
                if not hit:
                    continue
                # a field of the value is passed ...
                direct = [n for n in _walk(e) if n[0] == "proj" and n[1][0] == "agg" and isinstance(n[1][1], tuple) and (n[1][1][0] or "").endswith("dp::NoiseParams") and len(n) > 2 and n[2] in fields]
                for n in direct:
                    reads.add(n[2])
                    if fn.endswith("OPRFPaddingDp::new"):
                        posreads.setdefault(pos, set()).add((n[2], f"dp_for_histogram#{k}"))
                # ... or the whole value is handed to a function that reads it
                if not direct and fn in facts.by_root:
                    reads |= noise_reads(facts, fn, set(fields))
        bad = sorted(reads - explicit - DEFAULT_OK)
        arm = "DiscreteLaplace" if "DiscreteLaplace" in str(flow.expr_of(b, {"cp": [local, ["f", 0, "epsilon"]]}, max_depth=6)) else ("Binomial" if "Binomial" in str(flow.expr_of(b, {"cp": [local, ["f", 0, "epsilon"]]}, max_depth=6)) else f"site{k}")
        ctx.ob("FIELDS-noise", f"{arm}:consumers-read-initialised-fields", not bad and bool(reads), f"consumers read {sorted(reads)}; explicitly set {sorted(explicit)}" if not bad and reads else (f"a consumer of the {arm} NoiseParams reads {bad}, which this site leaves at Default::default(): the noise is calibrated with the default instead of the configured value" if bad else "no consumer of the constructed NoiseParams found"), site_of(b, sbb))
    # sibling agreement of the OPRFPaddingDp::new calls fed from a NoiseParams parameter
    for body in facts.non_test_bodies():
        if not body.path.startswith("protocol::dp::"):
            continue
        for bb, t in body.calls():
            if (F.callee(t)[0] or "").endswith("OPRFPaddingDp::new"):
                for pos, a in enumerate(t["args"]):
                    e = flow.expr_of(body, a, max_depth=8)
                    if e[0] == "arg" and len(e) == 3 and e[2] in fields and "NoiseParams" in body.local_ty(e[1]):
                        posreads.setdefault(pos, set()).add((e[2], body.path))
    for pos in sorted(posreads):
        names = {n for n, _ in posreads[pos]}
        ctx.ob("FIELDS-noise", f"OPRFPaddingDp::new#arg{pos}:same-field-everywhere", len(names) == 1, f"argument {pos} is NoiseParams.{sorted(names)[0]} at all {len(posreads[pos])} sites" if len(names) == 1 else f"argument {pos} of OPRFPaddingDp::new is read from different NoiseParams fields: {sorted(posreads[pos])}")
    ctx.floor("FIELDS-noise", "OPRFPaddingDp::new argument positions fed from NoiseParams", len(posreads), 3)


def excluded_share(ctx, facts):
    """Dummy rows are generated by two helpers from shared randomness; the third holds zero.  The two must put the value
    on the side they share with each other and ZERO on the side they share with the excluded helper."""
    from rules.C17 import variant_arms
    ctx.rule("SHARE-excluded: ReplicatedSecretSharing::new_excluding_direction(v, d) = new(ZERO, v) for d = Left and new(v, ZERO) for d = Right (the component shared with the excluded helper, which sits in direction d, is ZERO); the padding generators call it with their own direction-to-excluded-helper and the drawn dummy value")
    b = facts.bodies.get("secret_sharing::replicated::ReplicatedSecretSharing::new_excluding_direction")
    if b is None:
        return ctx.missing("SHARE-excluded", "ReplicatedSecretSharing::new_excluding_direction")
    ctx.count(bodies=1)
    dom = b.dominators()
    arms = variant_arms(b, "helpers::Direction", facts)
    news = flow.find_calls(b, re.compile(r"ReplicatedSecretSharing::new$"))
    ok, why = False, "no match on the direction with one new(..) per arm"
    if arms and len(news) == 2:
        table = {}
        for name, tgt in arms[0][2].items():
            for bb, t in news:
                if flow.dominates(dom, tgt, bb):
                    a0, a1 = (flow.expr_of(b, x) for x in t["args"])
                    z0, z1 = (x[0] == "const" and str(x[1]).endswith("::ZERO") for x in (a0, a1))
                    table[name] = ("ZERO" if z0 else ("v" if a0 == ("arg", 1) else "?"), "ZERO" if z1 else ("v" if a1 == ("arg", 1) else "?"))
        ok = table == {"Left": ("ZERO", "v"), "Right": ("v", "ZERO")}
        why = "Left => (ZERO, v), Right => (v, ZERO)" if ok else f"new_excluding_direction builds {table}: the value sits on the side shared with the excluded helper, so the two generating helpers hold inconsistent shares of the dummy and the excluded helper's zero share is wrong"
    ctx.ob("SHARE-excluded", "zero-towards-excluded-helper", ok, why, site_of(b))
    # callers
    n = 0
    for body in sorted(facts.non_test_bodies(), key=lambda x: x.path):
        for bb, t in body.calls():
            if (F.callee(t)[0] or "").endswith("ReplicatedSecretSharing::new_excluding_direction"):
                n += 1
                d = flow.expr_of(body, t["args"][1], max_depth=8)
                okd = (d[0] == "arg" and len(d) == 2 and "Direction" in body.local_ty(d[1])) or (d[0] == "upvar" and len(d) == 2)
                ctx.ob("SHARE-excluded", f"caller@{body.root.split('::')[-1]}#{n}", okd, "called with the pass's direction to the excluded helper" if okd else f"called with {str(d)[:80]} instead of the pass's direction to the excluded helper", site_of(body, bb))
    ctx.floor("SHARE-excluded", "callers of new_excluding_direction", n, 1)


def padding_counts(ctx, facts):
    """Dummy rows: one draw per cardinality 1..=cap (match-key padding) / per breakdown key 0..B (aggregation padding),
    the announced total equals the number of rows actually appended (the excluded helper adds that many zero rows and
    the malicious variant compares the counts)."""
    from rules.C17 import variant_arms
    ctx.rule("COUNT-padding: OPRF padding loops over RangeInclusive(1, matchkey_cardinality_cap), draws one sample per cardinality, appends take(sample) groups of repeat_n(row, cardinality) and adds sample * cardinality to the total; aggregation padding loops over 0..B, draws one sample per key, appends exactly `sample` rows carrying that key (loop 0..sample, one row per iteration) and adds sample to the total; the hand-written share of the key puts ZERO on the side of the excluded helper")
    roots = sorted(p for p in facts.by_root if p.endswith("Paddable>::add_padding_items") and not facts.is_test_path(p))
    if len(roots) != 2:
        return ctx.missing("COUNT-padding", "the two Paddable::add_padding_items impls")
    for root in roots:
        b = facts.bodies[root]
        ctx.count(bodies=len(facts.tree(root)))
        kind = "aggregation" if ", ()>" in root else "oprf"
        its = [flow.expr_of(b, t["args"][0], max_depth=8) for bb, t in flow.find_calls(b, re.compile(r"IntoIterator::into_iter$"))]
        smp = flow.find_calls(b, re.compile(r"OPRFPaddingDp::sample$"))
        tot = None
        for bb, idx, s in b.iter_assigns():
            r = s["r"]
            if r["k"] == "bin" and r["op"].startswith("Add") and len(s["p"]) == 1:
                e = flow.expr_of(b, {"cp": s["p"]}, max_depth=8)
                if "OPRFPaddingDp::sample" in str(e) and e[0] == "bin" and e[2][0] == "place":
                    tot = e
        if kind == "oprf":
            okl = len(its) == 1 and its[0][0] == "call" and its[0][1].endswith("RangeInclusive::<Idx>::new") and its[0][2][0] == ("const", 1) and its[0][2][1][0] == "arg" and "cardinality_cap" in str(its[0][2][1][-1])
            ctx.ob("COUNT-padding", "oprf:every-cardinality-1..=cap", okl and len(smp) == 1, "for cardinality in 1..=matchkey_cardinality_cap, one sample each" if okl and len(smp) == 1 else "the loop over match-key cardinalities is not 1..=cap with one draw each: some cardinality never gets dummy match keys, so its true count is revealed", site_of(b))
            okt = tot is not None and tot[3][0] == "bin" and tot[3][1] == "Mul" and "OPRFPaddingDp::sample" in str(tot[3][2]) + str(tot[3][3]) and "Iterator::next" in str(tot[3][2]) + str(tot[3][3])
            tk = flow.find_calls(b, re.compile(r"Iterator::take$"))
            inner = [x for x in facts.tree(root) if x.kind == "Closure" and flow.find_calls(x, re.compile(r"iter::repeat_n$"))]
            okr = len(tk) == 1 and "OPRFPaddingDp::sample" in str(flow.expr_of(b, tk[0][1]["args"][1], max_depth=6)) and len(inner) == 1 and flow.expr_of(inner[0], flow.find_calls(inner[0], re.compile(r"iter::repeat_n$"))[0][1]["args"][1], max_depth=4)[-1][0] == "upvar"
            if not tk and len(inner) == 1:
                # `(0..sample).flat_map(|_| repeat_n(row, cardinality))`: `sample` groups, the same count
                fm = flow.find_calls(b, re.compile(r"Iterator::flat_map$"))
                if len(fm) == 1:
                    src_ = flow.strip_casts(flow.expr_of(b, fm[0][1]["args"][0], max_depth=8))
                    okr = src_[0] == "agg" and src_[1] == ("std::ops::Range", "Range") and src_[2][0] == ("const", 0) and "OPRFPaddingDp::sample" in str(src_[2][1]) and flow.expr_of(inner[0], flow.find_calls(inner[0], re.compile(r"iter::repeat_n$"))[0][1]["args"][1], max_depth=4)[-1][0] == "upvar"
            ctx.ob("COUNT-padding", "oprf:total=rows", okt and okr, "total += sample * cardinality; rows: take(sample) x repeat_n(cardinality)" if okt and okr else "the announced number of dummy rows is not sample * cardinality, or the rows appended are not `sample` groups of `cardinality` copies: the helpers' tables differ in length", site_of(b))
        else:
            okl = len(its) == 2 and all(x[0] == "agg" and x[1] == ("std::ops::Range", "Range") and x[2][0] == ("const", 0) for x in its)
            outer_hi = str(its[0][2][1]) if okl else ""
            inner_hi = str(its[1][2][1]) if okl else ""
            okl = okl and ("B/" in outer_hi or "try_from" in outer_hi or "unwrap" in outer_hi) and "OPRFPaddingDp::sample" in inner_hi
            ctx.ob("COUNT-padding", "aggregation:every-key-0..B-sample-rows-each", okl and len(smp) == 1, "for key in 0..B { sample; for _ in 0..sample { one row } }" if okl and len(smp) == 1 else "aggregation padding does not add `sample` rows for every breakdown key 0..B", site_of(b))
            okt = tot is not None and "OPRFPaddingDp::sample" in str(tot[3]) and tot[3][0] == "call"
            ext = flow.find_calls(b, re.compile(r"Extend::extend$"))
            okr = len(ext) == 1 and flow.expr_of(b, ext[0][1]["args"][1], max_depth=3)[:2] == ("call", "std::iter::once")
            ctx.ob("COUNT-padding", "aggregation:total=rows", okt and okr, "total += sample; one row appended per inner iteration" if okt and okr else "the announced number of aggregation dummies is not the number of rows appended", site_of(b))
            # the key's share: ZERO towards the excluded helper
            dom = b.dominators()
            arms = variant_arms(b, "helpers::Direction", facts)
            news = flow.find_calls(b, re.compile(r"ReplicatedSecretSharing::new$"))
            table = {}
            if arms:
                for name, tgt in arms[0][2].items():
                    for bb, t in news:
                        if flow.dominates(dom, tgt, bb):
                            a0, a1 = (flow.expr_of(b, x, max_depth=8) for x in t["args"])
                            z = lambda x: x[0] == "const" and str(x[1]).endswith("::ZERO")
                            k = lambda x: "truncate_from" in str(x) and "Iterator::next" in str(x)
                            table[name] = ("ZERO" if z(a0) else "key" if k(a0) else "?", "ZERO" if z(a1) else "key" if k(a1) else "?")
            oks = table == {"Left": ("ZERO", "key"), "Right": ("key", "ZERO")}
            ctx.ob("COUNT-padding", "aggregation:key-share-zero-towards-excluded", oks, "Left => (ZERO, key), Right => (key, ZERO)" if oks else f"the dummy breakdown key is shared as {table}: inconsistent with the other generating helper and the excluded helper's zero row", site_of(b))
