"""C18  Query lifecycle is a consistent state machine under any sequence of API calls.

Decided statically (necessary conditions; DESIGN.md §3/C18):
  TABLE-transition   QueryState::transition evaluated over all 6x6 (current, new) variant pairs by
                     variant-set dataflow: Ok only for strictly forward pairs, never into Empty,
                     and the Ok payload is the requested new state.
  TABLE-status       From<&QueryState> for QueryStatus maps variant i -> status i-1 (declaration order).
  TABLE-min          min_status over all 25 pairs is the meet of the declaration order.
  STORE-write        every write into HashMap<QueryId, QueryState> in non-test code is (i) the value
                     returned by `transition`, (ii) a re-insert of the very value removed, or (iii) a
                     (from, to) pair with from < to, `from` being the refined variant set of the removed
                     value on that path.  Any other mutating method on the map is an unclassified writer.
  STORE-remove       every removal reaches a re-insert on every path, except the designated forgetting
                     paths (nothing removed; removed value Completed; kill; RemoveQuery::drop).
  GUARD-new-query    new_query: the RemoveQuery guard is created after set_state(Preparing) and before
                     the first await; guard.restore() is followed by no await / `?` and only by the Ok
                     return.
  FLOW-status        query_status result derives only from get_status and min_status folds; non-leader
                     shards are answered with Err before any state is read.
"""
import re
from vlib import facts as F, flow, variants as V
from vlib.core import site_of

LEVEL = "other"
EXPLANATION = "C18: variant-set dataflow tables for transition/status/min_status, classification of every write/removal on the query-state map, ordering of the RAII guard in new_query."

QS = "query::state::QueryState"
QST = "query::state::QueryStatus"
MAP_GA = ("protocol::QueryId", QS)


def is_state_map_call(t):
    fn, res, info = F.callee(t)
    if not fn:
        return False
    ga = info.get("ga", [])
    if len(ga) >= 2 and ga[0] == MAP_GA[0] and ga[1] == MAP_GA[1]:
        return True
    return False


def run(ctx):
    facts = ctx.facts()
    table_transition(ctx, facts)
    table_status(ctx, facts)
    table_min(ctx, facts)
    store_rules(ctx, facts)
    guard_new_query(ctx, facts)
    flow_status(ctx, facts)
    shard_status(ctx, facts)
    dispatch(ctx, facts)


def names(facts, adt):
    return [v["name"] for v in facts.adts[adt]["variants"]]


# ---------------------------------------------------------------------------------------------
def table_transition(ctx, facts):
    ctx.rule("TABLE-transition: for all (cur, new) in QueryState variants^2, transition(cur,new) may return Ok only if index(cur) < index(new) and new != Empty; the Ok payload is the `new_state` argument")
    b = facts.bodies.get("query::state::QueryState::transition")
    if b is None or QS not in facts.adts:
        return ctx.missing("TABLE-transition", "query::state::QueryState::transition")
    vn = names(facts, QS)
    ctx.count(bodies=1)
    n_ok = 0
    for i in range(len(vn)):
        for j in range(len(vn)):
            vf = V.VariantFlow(facts, b)
            env = {"L": {}, "S": {}}
            env["L"][1] = vf.new_sym(env, "cur", QS, [i])
            env["L"][2] = vf.new_sym(env, "new", QS, [j])
            vf.run(env)
            outcomes = set()
            payload_ok = True
            for bb, val, e in vf.return_values():
                vs = vf.variants_at(e, val)
                if vs is None:
                    outcomes |= {0, 1}
                    continue
                outcomes |= vs
                if 0 in vs:
                    for s in val:
                        pv = vf.syms[s].payload.get((0, 0))
                        if pv != frozenset(["new"]):
                            payload_ok = False
            may_ok = 0 in outcomes
            forward = i < j and j != 0
            if may_ok:
                n_ok += 1
            ctx.ob("TABLE-transition", f"{vn[i]}->{vn[j]}", (not may_ok) or (forward and payload_ok),
                   ("accepted" if may_ok else "rejected") + (" (forward)" if forward else " (not forward)") +
                   ("" if payload_ok else "; Ok payload is not the requested state"), site_of(b))
    ctx.floor("TABLE-transition", "accepted transitions", n_ok, 3)


def table_status(ctx, facts):
    ctx.rule("TABLE-status: From<&QueryState> for QueryStatus returns status i-1 for state variant i>=1 (same declaration order), and does not return for Empty")
    b = facts.bodies.get(f"<{QST} as std::convert::From<&{QS}>>::from")
    if b is None:
        return ctx.missing("TABLE-status", "From<&QueryState> for QueryStatus")
    vn, sn = names(facts, QS), names(facts, QST)
    ctx.ob("TABLE-status", "shape", len(vn) == len(sn) + 1 and vn[1:] == sn, f"QueryState variants {vn} vs QueryStatus {sn}")
    for i in range(len(vn)):
        vf = V.VariantFlow(facts, b)
        env = {"L": {}, "S": {}}
        env["L"][1] = vf.new_sym(env, "src", QS, [i])
        vf.run(env)
        got = set()
        for bb, val, e in vf.return_values():
            vs = vf.variants_at(e, val)
            got |= vs if vs is not None else {-1}
        want = set() if i == 0 else {i - 1}
        ctx.ob("TABLE-status", vn[i], got == want, f"status of {vn[i]}: {sorted(got)} expected {sorted(want)}", site_of(b))


def _rank_helper_model(facts, parent, vf, env, bb, t):
    """call model for a local helper `fn rank(status) -> integer` (a match on the argument returning one constant per
    variant): evaluated for the argument's variant, so that `rank(a) <= rank(b)` can be decided"""
    fn = F.callee(t)[0] or ""
    hb = facts.bodies.get(fn)
    if hb is None or not fn.startswith(parent.path + "::") or len(t["args"]) != 1:
        return NotImplemented
    a = vf.operand(env, t["args"][0])
    vs = vf.variants_at(env, a) if isinstance(a, frozenset) else None
    if not vs or len(vs) != 1:
        return NotImplemented
    adt = next(iter(vf.syms[s_].adt for s_ in a))
    h = V.VariantFlow(facts, hb)
    henv = {"L": {}, "S": {}}
    henv["L"][1] = h.new_sym(henv, "x", adt, list(vs))
    h.run(henv)
    vals = {val for bb_, val, e_ in h.return_values()}
    if len(vals) == 1:
        v = vals.pop()
        if isinstance(v, tuple) and v[:1] == ("int",):
            return v
    return NotImplemented


def table_min(ctx, facts):
    ctx.rule("TABLE-min: min_status(a,b) == the earlier of a,b in declaration order for all 25 pairs")
    b = facts.bodies.get("query::state::min_status")
    if b is None:
        return ctx.missing("TABLE-min", "query::state::min_status")
    sn = names(facts, QST)
    for i in range(len(sn)):
        for j in range(len(sn)):
            vf = V.VariantFlow(facts, b, call_model=lambda vf_, env_, bb_, t_: _rank_helper_model(facts, b, vf_, env_, bb_, t_))
            env = {"L": {}, "S": {}}
            env["L"][1] = vf.new_sym(env, "a", QST, [i])
            env["L"][2] = vf.new_sym(env, "b", QST, [j])
            vf.run(env)
            got = set()
            for bb, val, e in vf.return_values():
                vs = vf.variants_at(e, val)
                got |= vs if vs is not None else {-1}
            ctx.ob("TABLE-min", f"{sn[i]},{sn[j]}", got == {min(i, j)}, f"min_status = {sorted(got)}, expected {min(i, j)}", site_of(b))


# ---------------------------------------------------------------------------------------------
READERS = re.compile(r"::(get|len|is_empty|contains_key|entry|iter|keys|values|key)$")
INSERTS = re.compile(r"(HashMap::<K, V, S, A>::insert|OccupiedEntry::<'a, K, V, A>::insert|VacantEntry::<'a, K, V, A>::insert|Entry::<'a, K, V, A>::insert_entry)$")
REMOVES = re.compile(r"(HashMap::<K, V, S, A>::remove|HashMap::<K, V, S, A>::remove_entry|OccupiedEntry::<'a, K, V, A>::remove|OccupiedEntry::<'a, K, V, A>::remove_entry)$")
FORGETTERS = {
    "query::processor::Processor::kill": "kill: the query is deliberately forgotten",
    "<query::state::RemoveQuery<'_> as std::ops::Drop>::drop": "RAII removal after failed create / completion",
}


def store_model(vf, env, bb, t):
    fn, res, info = F.callee(t)
    if not fn:
        return NotImplemented
    if is_state_map_call(t):
        if REMOVES.search(fn):
            removed = vf.new_sym(env, ("removed", bb), QS, None, origin=("removed", bb))
            if "OccupiedEntry" in fn and fn.endswith("::remove"):
                return removed
            if fn.endswith("::remove"):
                opt = vf.new_sym(env, ("removed-opt", bb), "std::option::Option", None, origin=("removed-opt", bb))
                vf.syms[("removed-opt", bb)].payload[(1, 0)] = removed
                return opt
            # remove_entry -> Option<(K, V)>
            return vf.new_sym(env, ("removed-opt", bb), "std::option::Option", None, origin=("removed-opt", bb))
    if fn == "query::state::QueryState::transition":
        r = vf.new_sym(env, ("transition", bb), "std::result::Result", None, origin=("transition", bb))
        ok = vf.new_sym(env, ("transition-ok", bb), QS, None, origin=("transition", bb))
        vf.syms[("transition", bb)].payload[(0, 0)] = ok
        return r
    return NotImplemented


def store_rules(ctx, facts):
    ctx.rule("STORE-write: each insert into HashMap<QueryId,QueryState> is a transition() result, an identity re-insert of the removed value, or a strictly forward (from<to) replacement; other mutators are rejected")
    ctx.rule("STORE-remove: each removal from the map reaches a re-insert on every path unless nothing was removed, the removed state is Completed, or the body is a designated forgetter")
    vn = names(facts, QS)
    n_writes = n_removes = 0
    for b in sorted(facts.non_test_bodies(), key=lambda x: x.path):
        if not b.file.startswith("ipa-core/"):
            continue
        sites = [(bb, t) for bb, t in b.calls() if is_state_map_call(t)]
        if not sites:
            continue
        ctx.count(bodies=1, calls=len(sites))
        ins = [(bb, t) for bb, t in sites if INSERTS.search(F.callee(t)[0])]
        rem = [(bb, t) for bb, t in sites if REMOVES.search(F.callee(t)[0])]
        for bb, t in sites:
            fn = F.callee(t)[0]
            if INSERTS.search(fn) or REMOVES.search(fn) or READERS.search(fn):
                continue
            ok = not re.search(r"(_mut|insert|retain|clear|drain|extend|modify|replace|take|swap)", fn.split("::")[-1])
            ctx.ob("STORE-write", f"other-method:{b.root}:{F.short(fn,1)}", ok,
                   "read-only access" if ok else f"unclassified mutating access `{fn}` to the query-state map", site_of(b, bb))
        if not ins and not rem:
            continue
        overwritten = {}

        def on_over(vf, env, bb, idx, local, old, new):
            # a local holding a removed value is overwritten with a fresh aggregate
            if any(vf.syms[s].origin and vf.syms[s].origin[0] == "removed" for s in old):
                fr = vf.variants_at(env, frozenset(s for s in old if vf.syms[s].origin and vf.syms[s].origin[0] == "removed"))
                for s in new:
                    if vf.syms[s].origin and vf.syms[s].origin[0] == "agg":
                        overwritten.setdefault(s, set()).update(fr)
        vf = V.VariantFlow(facts, b, call_model=store_model, on_assign_over=on_over)
        vf.run()
        for n, (bb, t) in enumerate(ins):
            n_writes += 1
            env = vf.env_before_term(bb)
            inst = f"{b.root}#insert{n}"
            if env is None:
                ctx.ob("STORE-write", inst, True, "unreachable insert", site_of(b, bb))
                continue
            val = vf.operand(env, t["args"][-1])
            if not isinstance(val, frozenset):
                ctx.ob("STORE-write", inst, False, "inserted value cannot be classified (unknown provenance)", site_of(b, bb))
                continue
            removed_syms = [k for k, s in vf.syms.items() if s.origin and s.origin[0] == "removed" and k in env["S"]]
            from_now = set()
            for k in removed_syms:
                from_now |= env["S"].get(k, frozenset())
            ok, notes = True, []
            for s in sorted(val, key=str):
                sym = vf.syms[s]
                o = sym.origin[0] if sym.origin else "?"
                if o == "removed":
                    notes.append("identity re-insert")
                elif o == "transition":
                    notes.append("transition() result")
                elif o == "agg":
                    to = env["S"].get(s, frozenset())
                    fr = overwritten.get(s)
                    if not fr:
                        # what the removed value is known to be where this state was built (inside a match arm on it),
                        # not at the insert after the arms have joined
                        abb = sym.origin[1]
                        aenv = vf.in_env.get(abb)
                        fr = set()
                        if aenv is not None:
                            for k in removed_syms:
                                fr |= set(aenv["S"].get(k, frozenset()))
                        fr = fr or from_now
                    # the same variant rebuilt around the payload taken out of the removed value (`Running(running)`) is an identity re-insert
                    rebuilt = False
                    if fr and set(fr) == set(to) and len(to) == 1 and sym.meta.get("ops"):
                        src = " ".join(str(flow.expr_of(b, o_, max_depth=12)) for o_ in sym.meta["ops"])
                        rebuilt = bool(re.search(r"HashMap::<K, V, S, A>::remove|OccupiedEntry", src))
                    good = bool(fr) and (rebuilt or all(f < x for f in fr for x in to))
                    notes.append("identity rebuild of the removed state" if rebuilt else "%s -> %s" % (sorted(vn[f] for f in fr), sorted(vn[x] for x in to)))
                    if not good:
                        ok = False
                else:
                    ok = False
                    notes.append(f"value of unknown origin {o}")
            ctx.ob("STORE-write", inst, ok, "; ".join(notes) + ("" if ok else "  -- not a forward transition"), site_of(b, bb))
        # removals
        for n, (bb, t) in enumerate(rem):
            n_removes += 1
            inst = f"{b.root}#remove{n}"
            if b.root in FORGETTERS:
                ctx.ob("STORE-remove", inst, True, "designated forgetter: " + FORGETTERS[b.root], site_of(b, bb))
                continue
            # exempt edges: switch edges on which the removed value is absent or Completed
            cut = set()
            completed = vn.index("Completed")
            for sb in vf.in_env:
                if b.term(sb)["k"] != "switch":
                    continue
                for succ, e2 in vf.edge_envs(vf.in_env[sb], sb):
                    optk, remk = ("removed-opt", bb), ("removed", bb)
                    if optk in e2["S"] and e2["S"][optk] == frozenset([0]):
                        cut.add((sb, succ))
                    if remk in e2["S"] and e2["S"][remk] and e2["S"][remk] <= frozenset([completed]):
                        cut.add((sb, succ))
                    for k, s in vf.syms.items():
                        # `remove(..)?`: the Break edge of the branch on the removed Option
                        if k[0] == "branch" and k in e2["S"] and e2["S"][k] == frozenset([1]) and s.meta.get("branch_of") == frozenset([optk]):
                            cut.add((sb, succ))
                # feasible-edge pruning: edges that the dataflow never takes
                feas = {succ for succ, _ in vf.edge_envs(vf.in_env[sb], sb)}
                for succ in b.succs(sb):
                    if succ not in feas:
                        cut.add((sb, succ))
            barrier = {ib for ib, _ in ins}
            reach = flow.reach_avoiding(b, [bb], barrier, cut)
            bad = [r for r in reach if b.term(r)["k"] in ("ret", "yield")]
            ctx.ob("STORE-remove", inst, not bad,
                   "every path re-inserts (or forgets on purpose)" if not bad else "a path from this removal reaches %s without re-inserting the state: an invalid request would drop the query" % ("an await" if b.term(bad[0])["k"] == "yield" else "return"),
                   site_of(b, bb))
    ctx.floor("STORE-write", "insert sites on the query-state map", n_writes, 4)
    ctx.floor("STORE-remove", "remove sites on the query-state map", n_removes, 3)


# ---------------------------------------------------------------------------------------------
def guard_new_query(ctx, facts):
    ctx.rule("GUARD-new-query: set_state(Preparing) dominates remove_query_on_drop(); no await is reachable between them; after guard.restore() no await and no `?` is reachable and the function returns Ok")
    root = "query::processor::Processor::new_query"
    tree = [b for b in facts.tree(root) if b.coroutine]
    if not tree:
        return ctx.missing("GUARD-new-query", root)
    b = tree[0]
    ctx.count(bodies=1)
    sets = flow.find_calls(b, r"QueryHandle::<'_>::set_state$")
    guards = flow.find_calls(b, r"QueryHandle::<'_>::remove_query_on_drop$")
    restores = flow.find_calls(b, r"RemoveQuery::<'a>::restore$")
    if not sets or not guards or not restores:
        return ctx.missing("GUARD-new-query", "set_state / remove_query_on_drop / restore calls in new_query")
    dom = b.dominators()
    s0 = min(bb for bb, _ in sets)
    g = guards[0][0]
    ctx.ob("GUARD-new-query", "guard-after-set-state", flow.dominates(dom, s0, g), "set_state(Preparing) dominates guard creation", site_of(b, g))
    between = flow.reach_avoiding(b, [s0], {g})
    aw = [x for x in between if b.term(x)["k"] == "yield"]
    ctx.ob("GUARD-new-query", "no-await-before-guard", not aw, "no await between set_state(Preparing) and guard creation" if not aw else "an await is reachable after the state was registered and before the removal guard exists: a cancelled/failed creation leaves a trace", site_of(b, aw[0] if aw else g))
    for n, (rb, _) in enumerate(restores):
        after = b.reachable(b.term(rb)["t"])
        bad = [x for x in after if b.term(x)["k"] == "yield" or (b.term(x)["k"] == "call" and F.call_matches(b.term(x), re.compile(r"(Try::branch|FromResidual::from_residual)$")))]
        ctx.ob("GUARD-new-query", f"restore-last#{n}", not bad, "restore() is followed only by the Ok return" if not bad else "a fallible step or await follows guard.restore(): a failure there leaves the query registered", site_of(b, bad[0] if bad else rb))
        # all returns reachable after restore carry Ok
        oks = True
        for x in after:
            for s in b.stmts(x):
                if "p" in s and s["p"] == [0] and s["r"]["k"] == "agg" and s["r"].get("vn") == "Err":
                    oks = False
        ctx.ob("GUARD-new-query", f"restore-then-ok#{n}", oks, "only Ok is returned after restore()", site_of(b, rb))
    # the second set_state (AwaitingInputs) happens while the guard is alive: restore dominated by it
    if len(sets) >= 2:
        s1 = max(bb for bb, _ in sets)
        ctx.ob("GUARD-new-query", "restore-after-final-state", all(flow.dominates(dom, s1, rb) for rb, _ in restores), "guard is disarmed only after the final state was set")


def shard_status(ctx, facts):
    """What a non-leader shard tells the leader: its OWN status.  The leader's meet (min_status) is only as good as the
    values the shards report, so the error that carries a differing status must put the shard's own get_status()
    result in the field the leader reads (`my_status`), and readers must read that field."""
    ctx.rule("FLOW-shard-status: shard_status returns Ok(own status) when it equals the requested one and otherwise DifferentStatus { my_status: own get_status() result, other_status: the request's status }; every reader of a DifferentStatus error outside Debug/Display takes `my_status`")
    b = facts.bodies.get("query::processor::Processor::shard_status")
    if b is None:
        return ctx.missing("FLOW-shard-status", "Processor::shard_status")
    ctx.count(bodies=1)
    adt = facts.adts.get("query::processor::QueryStatusError")
    fields = []
    if adt:
        for v in adt["variants"]:
            if v["name"] == "DifferentStatus":
                fields = [f["name"] for f in v["fields"]]
    agg = [(bb, idx, st) for bb, idx, st in b.iter_assigns() if st["r"]["k"] == "agg" and st["r"].get("vn") == "DifferentStatus"]
    if not agg or not fields:
        return ctx.missing("FLOW-shard-status", "DifferentStatus aggregate / variant fields")
    bb, idx, st = agg[0]
    vals = {n: str(flow.expr_of(b, o, max_depth=25)) for n, o in zip(fields, st["r"]["ops"])}
    ok_my = "Processor::get_status" in vals.get("my_status", "") and "get_status" not in vals.get("other_status", "")
    ok_other = "('arg', 3" in vals.get("other_status", "") and "status" in vals.get("other_status", "")
    ctx.ob("FLOW-shard-status", "error-carries-own-status", ok_my and ok_other, "my_status = this shard's status, other_status = the leader's" if ok_my and ok_other else "the DifferentStatus error does not carry this shard's own status in `my_status` (fields swapped): the leader's min_status then folds in its own status again and reports a state some shard has not reached", site_of(b, bb, idx))
    okv = False
    for bb2, idx2, st2 in b.iter_assigns():
        r = st2["r"]
        if st2["p"] == [0] and r["k"] == "agg" and r.get("adt") == "std::result::Result" and r["vn"] == "Ok":
            okv = "Processor::get_status" in str(flow.expr_of(b, r["ops"][0], max_depth=25))
    ctx.ob("FLOW-shard-status", "ok-is-own-status", okv, "Ok(own status)" if okv else "shard_status does not return its own status on agreement", site_of(b))
    dom = b.dominators()
    # the edge on which the two statuses differ: true edge of `!=` / PartialEq::ne, false edge of `==` / PartialEq::eq
    ne = [(tgt, f) for tgt, f in flow.edge_guards(b) if "get_status" in str(f) and (
        (f[0] == "Ne") or (f[0] == "true" and "PartialEq::ne" in str(f[1])) or (f[0] == "false" and "PartialEq::eq" in str(f[1])))]
    okg = bool(ne) and any(flow.dominates(dom, tgt, bb) for tgt, f in ne)
    # and the Ok(own status) only on the other edge
    eq = [(tgt, f) for tgt, f in flow.edge_guards(b) if "get_status" in str(f) and (
        (f[0] == "Eq") or (f[0] == "false" and "PartialEq::ne" in str(f[1])) or (f[0] == "true" and "PartialEq::eq" in str(f[1])))]
    for bb2, idx2, st2 in b.iter_assigns():
        r = st2["r"]
        if st2["p"] == [0] and r["k"] == "agg" and r.get("adt") == "std::result::Result" and r["vn"] == "Ok":
            okg = okg and any(flow.dominates(dom, tgt, bb2) for tgt, f in eq)
    ctx.ob("FLOW-shard-status", "error-iff-different", okg, "the error is raised exactly when the statuses differ" if okg else "DifferentStatus is not guarded by `request.status != own status`", site_of(b, bb, idx))
    # readers of the error
    n = 0
    for rb in facts.non_test_bodies():
        if re.search(r"(Debug|Display)>::fmt|Error>::source", rb.path) or not rb.file.startswith("ipa-core/"):
            continue
        hit = set()
        for sb in rb.live_blocks():
            for stt in rb.stmts(sb):
                blob = str(stt)
                if "'DifferentStatus'" in blob:
                    for m in re.finditer(r"\['d', \d+, 'DifferentStatus'\], \['f', \d+, '(\w+)'\]", blob):
                        hit.add(m.group(1))
        if hit and rb.path != b.path:
            n += 1
            ok = "other_status" not in hit
            ctx.ob("FLOW-shard-status", f"reader:{rb.path}", ok, f"reads {sorted(hit)}" if ok else "a consumer of the DifferentStatus error reads `other_status` (the asker's own status echoed back) as the shard's status", site_of(rb))
    ctx.count(bodies=n)


def flow_status(ctx, facts):
    ctx.rule("FLOW-status: in query_status the Ok value derives only from get_status / min_status; the non-leader Err return precedes get_status")
    root = "query::processor::Processor::query_status"
    tree = [b for b in facts.tree(root) if b.coroutine]
    if not tree:
        return ctx.missing("FLOW-status", root)
    b = tree[0]
    ctx.count(bodies=1)
    gs = flow.find_calls(b, r"Processor::get_status$")
    ms = flow.find_calls(b, r"query::state::min_status$")
    if not gs or not ms:
        return ctx.missing("FLOW-status", "get_status / min_status calls in query_status")
    # Ok aggregates assigned to _0
    n = 0
    for bb, idx, s in b.iter_assigns():
        r = s["r"]
        if s["p"] == [0] and r["k"] == "agg" and r.get("adt") == "std::result::Result" and r["vn"] == "Ok":
            n += 1
            org = flow.origins(b, r["ops"][0], through_calls=(r"Try::branch$", r"Option::<T>::ok_or$"))
            allowed = {("call", x) for x, _ in gs} | {("call", x) for x, _ in ms}
            bad = [o for o in org if o not in allowed]
            ctx.ob("FLOW-status", f"ok-value#{n}", not bad, "Ok(status) derives from get_status/min_status only" if not bad else f"Ok(status) also derives from {bad}", site_of(b, bb, idx))
    ctx.floor("FLOW-status", "Ok returns", n, 1)
    # min_status is folded over (status, other): its first operand derives from status itself
    for k, (bb, t) in enumerate(ms):
        allowed = {("call", x) for x, _ in gs} | {("call", x) for x, _ in ms}
        okf = any(flow.origins(b, a_, through_calls=(r"Try::branch$", r"Option::<T>::ok_or$")) <= allowed for a_ in t["args"])
        ctx.ob("FLOW-status", f"fold#{k}", okf, "min_status folds the running status", site_of(b, bb))
    # a fold inside a loop must be carried: one operand is the previous result of the fold itself, the other the item
    for k, (bb, t) in enumerate(ms):
        in_loop = any(bb in b.reachable(sx) for sx in b.succs(bb))
        if not in_loop:
            continue
        cycle = {x for x in b.reachable(bb) if bb in b.reachable(x)}
        # the accumulator: the call's destination and what it is moved into *inside the loop*
        acc = {t["d"][0]} if t.get("d") else set()
        for _ in range(6):
            for xbb, idx, s_ in b.iter_assigns():
                if xbb in cycle and s_["r"]["k"] == "use" and len(s_["p"]) == 1 and F.op_local(s_["r"]["o"]) in acc:
                    acc.add(s_["p"][0])
        def back(l, hops=6):
            # through copy temporaries defined inside the loop only
            while hops:
                ds = b.defs().get(l, [])
                if len(ds) == 1 and ds[0][1] != "t" and ds[0][2]["k"] == "use" and ds[0][0] in cycle and F.op_local(ds[0][2]["o"]) is not None:
                    l = F.op_local(ds[0][2]["o"])
                    hops -= 1
                    continue
                break
            return l
        carried = [i for i, a_ in enumerate(t["args"]) if F.op_local(a_) is not None and back(F.op_local(a_)) in acc]
        item = [i for i, a_ in enumerate(t["args"]) if i not in carried and "get_state_from_error" in str(flow.expr_of(b, a_, max_depth=30))]
        okc = len(carried) == 1 and len(item) == 1
        ctx.ob("FLOW-status", f"fold#{k}:carried", okc, "min_status(running minimum, this shard's status) - the minimum is carried from one shard to the next" if okc else ("the fold does not take its own previous result: the reported status is min(leader, last differing shard), not the least advanced status among all shards" if not carried else "the fold does not take the differing shard's status"), site_of(b, bb))
    # leader guard: the first Err return is decided before get_status is called
    dom = b.dominators()
    idn = flow.find_calls(b, r"Transport::identity$")
    ctx.ob("FLOW-status", "leader-check-first", bool(idn) and all(flow.dominates(dom, idn[0][0], g) for g, _ in gs), "shard identity is checked before the state is read")


# ---------------------------------------------------------------------------------------------
DISPATCH = {
    "helpers::HelperIdentity": {"ReceiveQuery": "new_query", "PrepareQuery": "prepare_helper", "QueryInput": "receive_inputs", "QueryStatus": "query_status", "CompleteQuery": "complete", "KillQuery": "kill"},
    "sharding::ShardIndex": {"PrepareQuery": "prepare_shard", "QueryStatus": "shard_status", "CompleteQuery": "<helper handler>"},
}
PROCESSOR_OPS = {"new_query", "prepare_helper", "prepare_shard", "receive_inputs", "query_status", "shard_status", "complete", "kill"}


def dispatch(ctx, facts):
    ctx.rule("TABLE-dispatch: the request handlers of app::Inner route each RouteId to exactly its own Processor operation - MPC side: ReceiveQuery->new_query, PrepareQuery->prepare_helper, QueryInput->receive_inputs, QueryStatus->query_status, CompleteQuery->complete, KillQuery->kill; shard side: PrepareQuery->prepare_shard, QueryStatus->shard_status, CompleteQuery->the MPC handler; every other route reaches no Processor operation")
    for ident, table in DISPATCH.items():
        root = f"<app::Inner as helpers::transport::handler::RequestHandler<{ident}>>::handle"
        b = next((x for x in facts.tree(root) if x.coroutine), None)
        if b is None:
            ctx.missing("TABLE-dispatch", root)
            continue
        ctx.count(bodies=1)
        side = "mpc" if "Helper" in ident else "shard"
        dom = b.dominators()
        sw = None
        for bb in sorted(b.live_blocks()):
            t = b.term(bb)
            if t["k"] == "switch":
                e = flow.expr_of(b, t["o"])
                if e[0] == "disc" and e[1][-1] == "route" and e[1][0] in ("proj", "upvar", "arg"):      # the request's `route` field, whatever the request variable is called
                    sw = (bb, t)
                    break
                    break
        if sw is None:
            ctx.missing("TABLE-dispatch", f"{side}: match on req.route")
            continue
        variants = {str(v["discr"]): v["name"] for v in facts.adts["helpers::transport::routing::RouteId"]["variants"]}
        arms = {variants[str(v)]: tgt for v, tgt in sw[1]["ts"] if str(v) in variants}
        other = sw[1].get("else")
        targets = set(arms.values()) | ({other} if other is not None else set())
        def ops_in(tgt):
            out = []
            # blocks belonging to this arm only: dominated by its target and not by another arm's target
            for bb, t in b.calls():
                if not flow.dominates(dom, tgt, bb):
                    continue
                fn = F.callee(t)[0] or ""
                m = re.search(r"query::processor::Processor::(\w+)$", fn)
                if m and m.group(1) in PROCESSOR_OPS:
                    out.append(m.group(1))
                elif re.search(r"RequestHandler::handle$|RequestHandler<helpers::HelperIdentity>>::handle$", fn) or ("RequestHandler" in fn and fn.endswith("::handle")):
                    out.append("<helper handler>")
            return sorted(set(out))
        for name in sorted(set(arms) | set(table)):
            tgt = arms.get(name)
            want = table.get(name)
            got = ops_in(tgt) if tgt is not None and list(arms.values()).count(tgt) == 1 and tgt != other else ([] if tgt is None or tgt == other else ops_in(tgt))
            ok = got == ([want] if want else [])
            ctx.ob("TABLE-dispatch", f"{side}:{name}", ok, f"{name} -> {want or 'rejected'}" if ok else f"{name} is dispatched to {got or 'nothing'}, expected {want or 'no Processor operation'}", site_of(b, tgt) if tgt is not None else site_of(b, sw[0]))
        if other is not None:
            got = ops_in(other) if other not in arms.values() else []
            ctx.ob("TABLE-dispatch", f"{side}:other-routes", not got, "routes without an entry reach no Processor operation" if not got else f"routes outside the table reach {got}", site_of(b, other))
