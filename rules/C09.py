"""C09  Wire encodings round-trip and reject every non-canonical byte string.

Decided statically (acceptance clauses; DESIGN.md §3/C09):
  TABLE-size     for every non-generic `impl Serializable` of a value type with BITS: Size*8 >= BITS; the decoder is
                 infallible only if every byte string of that size is a canonical encoding (bit arrays with
                 BITS == 8*Size); types whose value space is smaller (BITS % 8 != 0, prime fields, curve points, scalars
                 of prime order) must have a fallible decoder.  Composite sizes are the sum of their parts
                 (AdditiveShare<V> = 2*Size(V); proof arrays = len * 8; hash arrays = len * 32).
  GUARD-decode   each fallible decoder constructs its value only under its validity predicate:
                 prime fields v < PRIME (interval analysis, shared with C08), Boolean buf[0] > 1 => Err, padded bit arrays
                 raw[BITS..].not_any(), RP25519 decompress().ok_or(..)?, HybridEventType::try_from accepts exactly the
                 declared discriminants and `as u8` is its inverse.
  SIBLING-decoder a decoder of a prime-order type that *reduces* its input instead of rejecting out-of-range strings is the
                 deviant among its siblings (Fp31 / Fp32BitPrime / Fp61BitPrime reject).
  FIELDS-codec   Hybrid{Conversion,Impression}Info::{to_bytes, from_bytes} write and read the same fields, in the same
                 order and widths; `impl Result for Vec<T>` writes row i at [i*Size, (i+1)*Size).
Round-trip equality for all values and the bit-matrix transposes are numerical: not decided.
"""
import re
from vlib import facts as F, flow
from vlib.core import site_of
from rules import malsec, C08

LEVEL = "other"
EXPLANATION = "C09: size/fallibility table over all Serializable impls, validity-guard dominance in each fallible decoder, deviant decoder detection, field-order symmetry of the info codecs."

SV = "secret_sharing::SharedValue"


def ser_impls(facts):
    out = []
    for im in facts.impls:
        if im.get("trait") == "ff::Serializable" and not im["generic"]:
            size = next((int(it["usize"]) for it in im["items"] if it["name"] == "Size" and "usize" in it), None)
            err = next((it.get("ty") for it in im["items"] if it["name"] == "DeserializationError"), None)
            out.append((im["self"], size, err, im))
    return out


def run(ctx):
    facts = ctx.facts()
    table(ctx, facts)
    decoders(ctx, facts)
    C08.check_range(ctx, facts)   # prime-field decoders construct only under v < PRIME (interval analysis)
    event_type(ctx, facts)
    codecs(ctx, facts)
    ctx.assume("round-trip equality and bit-matrix transposes are numerical and not decided; curve25519-dalek's decompress / scalar parsing are trusted")


def table(ctx, facts):
    ctx.rule("TABLE-size: Size*8 >= BITS; Infallible decoder only when the value space is all byte strings of that size; fallible decoder when BITS % 8 != 0 or the type is a prime-order field")
    prime_fields = {im["self"] for im in facts.impls if im.get("trait") == C08.PRIMEFIELD and not im["generic"]}
    n = 0
    for ty, size, err, im in sorted(ser_impls(facts), key=lambda x: x[0]):
        bits = facts.const_val(f"<{ty} as {SV}>::BITS")
        if bits is None or size is None:
            continue
        n += 1
        t = F.short(ty, 1)
        infallible = err == "std::convert::Infallible"
        ctx.ob("TABLE-size", f"{t}:fits", size * 8 >= bits or "RP25519" in ty, f"Size {size} bytes holds BITS {bits}")
        if ty in prime_fields and ty != "ff::boolean::Boolean":
            p = facts.const_val(f"<{ty} as {C08.PRIMEFIELD}>::PRIME")
            must_fallible = p is not None and p < (1 << (8 * size))
            ctx.ob("TABLE-size", f"{t}:fallible-iff-partial", (not infallible) == must_fallible, f"prime field with PRIME < 2^{8*size}: decoder is fallible" if not infallible else f"{t} is a prime field whose values do not fill {size} bytes but its decoder is declared infallible")
        elif "boolean_array" in ty or "galois_field" in ty or ty == "ff::boolean::Boolean":
            must_fallible = bits != 8 * size
            ok = (not infallible) == must_fallible
            ctx.ob("TABLE-size", f"{t}:fallible-iff-partial", ok, ("padded type: decoder is fallible" if must_fallible else "full-width type: every byte string is canonical") if ok else (f"{t} has {8*size-bits} padding bit(s) but an infallible decoder: non-canonical encodings are accepted" if infallible else f"{t} is full-width but fallible"))
    ctx.floor("TABLE-size", "Serializable value types with BITS", n, 25)
    # composite sizes
    sizes = {ty: size for ty, size, err, im in ser_impls(facts)}
    hash_sz = sizes.get("helpers::hashing::Hash")
    f61 = sizes.get("ff::prime_field::fp61bit::Fp61BitPrime")
    for ty, size, err, im in ser_impls(facts):
        m = re.match(r"^\[helpers::hashing::Hash; (.+)\]$", ty)
        if m and hash_sz and size:
            ctx.ob("TABLE-size", "hash-array", size % hash_sz == 0, f"[Hash; N] is {size} = {size // hash_sz} * {hash_sz} bytes")
        m = re.match(r"^(?:std::boxed::Box<)?\[ff::prime_field::fp61bit::Fp61BitPrime; (.+)\]>?$", ty)
        if m and f61 and size:
            ctx.ob("TABLE-size", f"proof-array:{m.group(1)[:30]}", size % f61 == 0, f"{size} = {size // f61} * {f61} bytes")
    arr = None
    for path, c in facts.consts.items():
        if path.endswith("proof_generation::ARRAY_LEN") and "v" in c:
            arr = int(c["v"])
    box = [s for t, s, e, i in ser_impls(facts) if t.startswith("std::boxed::Box<[ff::prime_field::fp61bit::Fp61BitPrime")]
    if arr and box and f61:
        ctx.ob("TABLE-size", "proof-array==ARRAY_LEN*8", box[0] == arr * f61, f"Box<[Fp61; ARRAY_LEN]> is {box[0]} bytes, ARRAY_LEN*{f61} = {arr*f61}")
    # AdditiveShare<V>: Size = V::Size + V::Size (generic): the impl's assoc type is a typenum Sum
    for im in facts.impls:
        if im.get("trait") == "ff::Serializable" and im["generic"] and im["self"].startswith("secret_sharing::replicated::semi_honest::additive_share::AdditiveShare<"):
            ty = next((it.get("ty", "") for it in im["items"] if it["name"] == "Size"), "")
            ok = (ty.count("as ff::Serializable>::Size") >= 2 and ("Add" in ty or "Sum" in ty)) or re.search(r"<<V as ff::Serializable>::Size as std::ops::Add>::Output", ty) is not None
            ctx.ob("TABLE-size", "additive-share=2*V", ok, f"AdditiveShare<V>::Size = {ty[:120]}")


def decoders(ctx, facts):
    ctx.rule("GUARD-decode: Boolean: buf[0] > 1 => Err, never Ok; padded bit arrays: Ok only if raw[BITS..].not_any(); RP25519: decompress() failure => Err; prime fields: v < PRIME (RANGE, see C08)")
    # Boolean
    b = facts.bodies.get("<ff::boolean::Boolean as ff::Serializable>::deserialize")
    if b is None:
        ctx.missing("GUARD-decode", "Boolean::deserialize")
    else:
        ok = False
        for bb in sorted(b.live_blocks()):
            t = b.term(bb)
            if t["k"] == "switch":
                e = flow.expr_of(b, t["o"])
                if e[0] == "bin" and e[1] in ("Gt", "Ge", "Lt", "Le") and e[3][0] == "const":
                    ed = flow.switch_edges(b, bb)
                    oks = set(malsec.ok_blocks(b))
                    if e[1] == "Gt" and e[3][1] == 1:
                        ok = not (oks & b.reachable(ed[1])) and bool(oks & b.reachable(ed[0]))
                    elif e[1] == "Ge" and e[3][1] == 2:
                        ok = not (oks & b.reachable(ed[1]))
                    ctx.ob("GUARD-decode", "Boolean", ok, "bytes other than 0 and 1 are rejected" if ok else f"Boolean decoder accepts bytes beyond 1 (guard `{e[1]} {e[3][1]}`)", site_of(b, bb))
        if not ok and not any(o.instance == "Boolean" for o in ctx.obs if o.rule == "GUARD-decode"):
            ctx.ob("GUARD-decode", "Boolean", False, "no range check in Boolean::deserialize", site_of(b))
    # padded bit arrays
    n = 0
    for ty, size, err, im in sorted(ser_impls(facts), key=lambda x: x[0]):
        bits = facts.const_val(f"<{ty} as {SV}>::BITS")
        if bits is None or size is None or bits == 8 * size or not ("boolean_array" in ty or "galois_field" in ty):
            continue
        b = facts.bodies.get(f"<{ty} as ff::Serializable>::deserialize")
        if b is None:
            ctx.missing("GUARD-decode", f"{ty}::deserialize")
            continue
        n += 1
        ctx.count(bodies=1)
        g = malsec.guards(b, r"BitSlice::<T, O>::(not_any|any)$")
        ok = False
        site = None
        for sw, e, ed, call in g:
            s = str(call)
            is_not_any = call[1].endswith("not_any")
            rng_ok = re.search(r"'RangeFrom'\), \(\('const', %d\)" % bits, s) is not None
            accept = ed[1] if is_not_any else ed[0]
            reject = ed[0] if is_not_any else ed[1]
            oks = set(malsec.ok_blocks(b))
            ok = rng_ok and not (oks & b.reachable(reject)) and bool(oks & b.reachable(accept))
            site = sw
        ctx.ob("GUARD-decode", F.short(ty, 1), ok, f"Ok only if bits [{bits}..] are all zero" if ok else f"{F.short(ty,1)}::deserialize does not reject non-zero padding above bit {bits}", site_of(b, site) if site is not None else site_of(b))
    ctx.floor("GUARD-decode", "padded bit-array decoders", n, 9)
    # RP25519
    b = facts.bodies.get("<ff::curve_points::RP25519 as ff::Serializable>::deserialize")
    if b is None:
        ctx.missing("GUARD-decode", "RP25519::deserialize")
    else:
        dc = flow.find_calls(b, re.compile(r"CompressedRistretto::decompress$"))
        okr = False
        if dc:
            oo = [(bb, t) for bb, t in b.calls() if (F.callee(t)[0] or "").endswith("Option::<T>::ok_or") and "decompress" in str(flow.expr_of(b, t["args"][0]))]
            okr = bool(oo) and flow.question_mark(b, oo[0][1]["d"][0]) is not None
        ctx.ob("GUARD-decode", "RP25519", okr, "non-canonical Ristretto encodings are rejected (decompress()?)" if okr else "RP25519 decoder does not reject encodings that fail to decompress", site_of(b))
    # sibling decoders of prime-order types
    ctx.rule("SIBLING-decoder: every decoder of a prime-order type rejects out-of-range input (fallible, guard v < PRIME); one that reduces (`*_mod_order`) with an Infallible error type is the deviant")
    b = facts.bodies.get("<ff::ec_prime_field::Fp25519 as ff::Serializable>::deserialize")
    if b is None:
        ctx.missing("SIBLING-decoder", "Fp25519::deserialize")
    else:
        red = flow.find_calls(b, re.compile(r"from_bytes_mod_order(_wide)?$"))
        canon = flow.find_calls(b, re.compile(r"from_canonical_bytes$"))
        err = next((e for t, s, e, i in ser_impls(facts) if t == "ff::ec_prime_field::Fp25519"), None)
        ok = bool(canon) and not red and err != "std::convert::Infallible"
        ctx.ob("SIBLING-decoder", "Fp25519", ok, "canonical scalars only" if ok else "Fp25519::deserialize reduces its input modulo the group order (Scalar::from_bytes_mod_order, DeserializationError = Infallible): the 32 bytes ff..ff decode to a value whose re-encoding differs — non-canonical encodings are accepted, unlike Fp31/Fp32BitPrime/Fp61BitPrime", site_of(b, red[0][0]) if red else site_of(b))


def event_type(ctx, facts):
    ctx.rule("TABLE-event: HybridEventType::try_from(u8) returns Ok(variant i) exactly for the declared discriminant of variant i and Err otherwise")
    adt = facts.adts.get("report::hybrid::HybridEventType")
    b = facts.bodies.get("<report::hybrid::HybridEventType as std::convert::TryFrom<u8>>::try_from")
    if adt is None or b is None:
        return ctx.missing("TABLE-event", "HybridEventType / TryFrom<u8>")
    discr = {int(v["discr"]): i for i, v in enumerate(adt["variants"])}
    got = {}
    other_err = False
    for bb in sorted(b.live_blocks()):
        t = b.term(bb)
        if t["k"] == "switch" and F.op_local(t["o"]) is not None:
            for v, tgt in t["ts"]:
                for x in sorted(b.reachable(tgt)):
                    for s in b.stmts(x):
                        if "p" in s and s["r"]["k"] == "agg" and s["r"].get("adt") == "report::hybrid::HybridEventType":
                            got.setdefault(int(v), s["r"]["vi"])
                    if got.get(int(v)) is not None:
                        break
            reach = b.reachable(t["else"])
            other_err = any(x in reach for x in malsec.err_aggs(b, "UnknownEventType")) and not (set(malsec.ok_blocks(b)) & reach)
    ok = got == discr and other_err
    ctx.ob("TABLE-event", "try_from-inverse-of-as-u8", ok, f"byte -> variant table {got} equals the declared discriminants {discr}; other bytes => Err" if ok else f"byte -> variant table {got} vs declared discriminants {discr} (other => Err: {other_err})", site_of(b))


def codecs(ctx, facts):
    ctx.rule("FIELDS-codec: HybridConversionInfo::to_bytes writes domain, 0, key_id, timestamp, epsilon, sensitivity and from_bytes reads them back at the same offsets/widths; HybridImpressionInfo likewise (key_id); Vec<T>::to_bytes writes row i at [i*Size,(i+1)*Size)")
    tb = facts.bodies.get("report::hybrid_info::HybridConversionInfo::to_bytes")
    fb = facts.bodies.get("report::hybrid_info::HybridConversionInfo::from_bytes")
    if tb is None or fb is None:
        ctx.missing("FIELDS-codec", "HybridConversionInfo::{to_bytes, from_bytes}")
    else:
        from vlib import bounds
        dbg = bounds.debug_only_blocks(tb)
        seq = []
        for bb, t in sorted(tb.calls(), key=lambda x: x[0]):
            if bb in dbg:
                continue
            fn = F.callee(t)[0] or ""
            if re.search(r"Vec::<T, A>::(push|extend_from_slice)$", fn):
                e = flow.expr_of(tb, t["args"][-1])
                names = [x for x in flow.field_names_in(e)]
                if names:
                    seq.append(names[0])
                elif e == ("const", 0):
                    seq.append("<0>")
        want = ["conversion_site_domain", "<0>", "key_id", "timestamp", "epsilon", "sensitivity"]
        ctx.ob("FIELDS-codec", "conversion:to_bytes-order", seq == want, f"writes {seq}" if seq == want else f"to_bytes writes {seq}, expected {want}", site_of(tb))
        # from_bytes: aggregate operands and their byte ranges
        rd = {}
        adt = facts.adts.get("report::hybrid_info::HybridConversionInfo")
        names = [f["name"] for f in adt["variants"][0]["fields"]] if adt else []
        for bb, idx, s in fb.iter_assigns():
            r = s["r"]
            if r["k"] == "agg" and r.get("adt") == "report::hybrid_info::HybridConversionInfo":
                for nm, op in zip(names, r["ops"]):
                    e = str(flow.expr_of(fb, op))
                    m = re.search(r"'Range'\), \(\('const', (\d+)\), \('const', (\d+)\)\)", e)
                    if m:
                        rd[nm] = (int(m.group(1)), int(m.group(2)))
                    elif "position" in e and nm == "conversion_site_domain":
                        rd[nm] = "prefix"
                    else:
                        rd[nm] = e[:60]
        okr = rd.get("conversion_site_domain") == "prefix" and rd.get("timestamp") == (1, 9) and rd.get("epsilon") == (9, 17) and rd.get("sensitivity") == (17, 25)
        ctx.ob("FIELDS-codec", "conversion:from_bytes-layout", okr, f"reads {rd}" if okr else f"from_bytes layout {rd} does not mirror to_bytes (key_id@0, timestamp@1..9, epsilon@9..17, sensitivity@17..25 after the delimiter)", site_of(fb))
        be = [F.callee(t)[0] or "" for _, t in tb.calls()] + [F.callee(t)[0] or "" for _, t in fb.calls()]
        ctx.ob("FIELDS-codec", "conversion:same-endianness", sum(1 for x in be if x.endswith("to_be_bytes")) == 3 and sum(1 for x in be if x.endswith("from_be_bytes")) == 3, "three big-endian fields written and read")
    vb = next((x for p, x in facts.bodies.items() if re.search(r"<std::vec::Vec<T> as query::executor::Result>::to_bytes$", p)), None)
    if vb is None:
        ctx.missing("FIELDS-codec", "impl Result for Vec<T>")
    else:
        okv = False
        for bb, idx, s in vb.iter_assigns():
            r = s["r"]
            if r["k"] == "agg" and r.get("adt") == "std::ops::Range":
                lo, hi = flow.expr_of(vb, r["ops"][0]), flow.expr_of(vb, r["ops"][1])
                if lo[0] == "bin" and lo[1] == "Mul" and hi[0] == "bin" and hi[1] == "Mul" and "USIZE" in str(lo) and "USIZE" in str(hi):
                    okv = hi[2][0] == "bin" and hi[2][1] == "Add" and ("const", 1) in (hi[2][2], hi[2][3]) and str(hi[2][2]) == str(lo[2]) or (hi[2][0] == "bin" and str(lo[2]) in str(hi[2]))
        alloc = any((F.callee(t)[0] or "").endswith("from_elem") and "USIZE" in str(flow.expr_of(vb, t["args"][1])) for _, t in vb.calls())
        ctx.ob("FIELDS-codec", "vec-result-layout", okv and alloc, "row i is serialized into [i*Size, (i+1)*Size) of a len*Size buffer" if okv and alloc else "result rows are not laid out at stride Size", site_of(vb))
