"""C09  Wire encodings round-trip and reject every non-canonical byte string.

Decided statically (acceptance clauses; DESIGN.md §3/C09):
  TABLE-size     for every non-generic `impl Serializable` of a value type with BITS: Size*8 >= BITS; the decoder is
                 infallible only if every byte string of that size is a canonical encoding (bit arrays with
                 BITS == 8*Size); types whose value space is smaller (BITS % 8 != 0, prime fields, curve points, scalars
                 of prime order) must have a fallible decoder.  Composite sizes are the sum of their parts
                 (AdditiveShare<V> = 2*Size(V); proof arrays = len * 8; hash arrays = len * 32).
  GUARD-decode   each fallible decoder constructs its value only under its validity predicate:
                 prime fields v < PRIME (interval analysis, shared with C08), Boolean buf[0] > 1 => Err, padded bit arrays
                 raw[BITS..].not_any(), RP25519 decompress().ok_or(..)?, HybridEventType::try_from accepts exactly the
                 declared discriminants and `as u8` is its inverse.
  SIBLING-decoder a decoder of a prime-order type that *reduces* its input instead of rejecting out-of-range strings is the
                 deviant among its siblings (Fp31 / Fp32BitPrime / Fp61BitPrime reject).
  FIELDS-codec   Hybrid{Conversion,Impression}Info::{to_bytes, from_bytes} write and read the same fields, in the same
                 order and widths; `impl Result for Vec<T>` writes row i at [i*Size, (i+1)*Size).
Round-trip equality for all values and the bit-matrix transposes are numerical: not decided.
"""
import re
from vlib import facts as F, flow
from vlib.core import site_of
from rules import malsec, C08

LEVEL = "other"
EXPLANATION = "C09: size/fallibility table over all Serializable impls, validity-guard dominance in each fallible decoder, deviant decoder detection, field-order symmetry of the info codecs."

SV = "secret_sharing::SharedValue"


def ser_impls(facts):
    out = []
    for im in facts.impls:
        if im.get("trait") == "ff::Serializable" and not im["generic"]:
            size = next((int(it["usize"]) for it in im["items"] if it["name"] == "Size" and "usize" in it), None)
            err = next((it.get("ty") for it in im["items"] if it["name"] == "DeserializationError"), None)
            out.append((im["self"], size, err, im))
    return out


def run(ctx):
    cover(ctx, ctx.facts())
    result_layout(ctx, ctx.facts())
    query_string_fields(ctx, ctx.facts())
    facts = ctx.facts()
    table(ctx, facts)
    decoders(ctx, facts)
    C08.check_range(ctx, facts)   # prime-field decoders construct only under v < PRIME (interval analysis)
    C08.check_pad_constructors(ctx, facts)   # every other bytes -> value path of a padded type also keeps the padding zero
    C08.check_padding(ctx, facts)            # operators keep the padding zero, so every in-memory value has an encoding that decodes
    event_type(ctx, facts)
    codecs(ctx, facts)
    exact_length(ctx, facts)
    ctx.assume("round-trip equality and bit-matrix transposes are numerical and not decided; curve25519-dalek's decompress / scalar parsing are trusted")


def table(ctx, facts):
    ctx.rule("TABLE-size: Size*8 >= BITS; Infallible decoder only when the value space is all byte strings of that size; fallible decoder when BITS % 8 != 0 or the type is a prime-order field")
    prime_fields = {im["self"] for im in facts.impls if im.get("trait") == C08.PRIMEFIELD and not im["generic"]}
    n = 0
    for ty, size, err, im in sorted(ser_impls(facts), key=lambda x: x[0]):
        bits = facts.const_val(f"<{ty} as {SV}>::BITS")
        if bits is None or size is None:
            continue
        n += 1
        t = F.short(ty, 1)
        infallible = err == "std::convert::Infallible"
        ctx.ob("TABLE-size", f"{t}:fits", size * 8 >= bits or "RP25519" in ty, f"Size {size} bytes holds BITS {bits}")
        if ty in prime_fields and ty != "ff::boolean::Boolean":
            p = facts.const_val(f"<{ty} as {C08.PRIMEFIELD}>::PRIME")
            must_fallible = p is not None and p < (1 << (8 * size))
            ctx.ob("TABLE-size", f"{t}:fallible-iff-partial", (not infallible) == must_fallible, f"prime field with PRIME < 2^{8*size}: decoder is fallible" if not infallible else f"{t} is a prime field whose values do not fill {size} bytes but its decoder is declared infallible")
        elif "boolean_array" in ty or "galois_field" in ty or ty == "ff::boolean::Boolean":
            must_fallible = bits != 8 * size
            ok = (not infallible) == must_fallible
            ctx.ob("TABLE-size", f"{t}:fallible-iff-partial", ok, ("padded type: decoder is fallible" if must_fallible else "full-width type: every byte string is canonical") if ok else (f"{t} has {8*size-bits} padding bit(s) but an infallible decoder: non-canonical encodings are accepted" if infallible else f"{t} is full-width but fallible"))
    ctx.floor("TABLE-size", "Serializable value types with BITS", n, 25)
    # composite sizes
    sizes = {ty: size for ty, size, err, im in ser_impls(facts)}
    hash_sz = sizes.get("helpers::hashing::Hash")
    f61 = sizes.get("ff::prime_field::fp61bit::Fp61BitPrime")
    for ty, size, err, im in ser_impls(facts):
        m = re.match(r"^\[helpers::hashing::Hash; (.+)\]$", ty)
        if m and hash_sz and size:
            ctx.ob("TABLE-size", "hash-array", size % hash_sz == 0, f"[Hash; N] is {size} = {size // hash_sz} * {hash_sz} bytes")
        m = re.match(r"^(?:std::boxed::Box<)?\[ff::prime_field::fp61bit::Fp61BitPrime; (.+)\]>?$", ty)
        if m and f61 and size:
            ctx.ob("TABLE-size", f"proof-array:{m.group(1)[:30]}", size % f61 == 0, f"{size} = {size // f61} * {f61} bytes")
    arr = None
    for path, c in facts.consts.items():
        if path.endswith("proof_generation::ARRAY_LEN") and "v" in c:
            arr = int(c["v"])
    box = [s for t, s, e, i in ser_impls(facts) if t.startswith("std::boxed::Box<[ff::prime_field::fp61bit::Fp61BitPrime")]
    if arr and box and f61:
        ctx.ob("TABLE-size", "proof-array==ARRAY_LEN*8", box[0] == arr * f61, f"Box<[Fp61; ARRAY_LEN]> is {box[0]} bytes, ARRAY_LEN*{f61} = {arr*f61}")
    # AdditiveShare<V>: Size = V::Size + V::Size (generic): the impl's assoc type is a typenum Sum
    for im in facts.impls:
        if im.get("trait") == "ff::Serializable" and im["generic"] and im["self"].startswith("secret_sharing::replicated::semi_honest::additive_share::AdditiveShare<"):
            ty = next((it.get("ty", "") for it in im["items"] if it["name"] == "Size"), "")
            ok = (ty.count("as ff::Serializable>::Size") >= 2 and ("Add" in ty or "Sum" in ty)) or re.search(r"<<V as ff::Serializable>::Size as std::ops::Add>::Output", ty) is not None
            ctx.ob("TABLE-size", "additive-share=2*V", ok, f"AdditiveShare<V>::Size = {ty[:120]}")


def decoders(ctx, facts, siblings=True):
    ctx.rule("GUARD-decode: Boolean: buf[0] > 1 => Err, never Ok; padded bit arrays: Ok only if raw[BITS..].not_any(); RP25519: decompress() failure => Err; prime fields: v < PRIME (RANGE, see C08)")
    # Boolean
    b = facts.bodies.get("<ff::boolean::Boolean as ff::Serializable>::deserialize")
    if b is None:
        ctx.missing("GUARD-decode", "Boolean::deserialize")
    else:
        ok = False
        for bb in sorted(b.live_blocks()):
            t = b.term(bb)
            if t["k"] == "switch":
                e = flow.expr_of(b, t["o"])
                if e[0] == "bin" and e[1] in ("Gt", "Ge", "Lt", "Le") and e[3][0] == "const":
                    ed = flow.switch_edges(b, bb)
                    oks = set(malsec.ok_blocks(b))
                    if e[1] == "Gt" and e[3][1] == 1:
                        ok = not (oks & b.reachable(ed[1])) and bool(oks & b.reachable(ed[0]))
                    elif e[1] == "Ge" and e[3][1] == 2:
                        ok = not (oks & b.reachable(ed[1]))
                    ctx.ob("GUARD-decode", "Boolean", ok, "bytes other than 0 and 1 are rejected" if ok else f"Boolean decoder accepts bytes beyond 1 (guard `{e[1]} {e[3][1]}`)", site_of(b, bb))
        if not ok and not any(o.instance == "Boolean" for o in ctx.obs if o.rule == "GUARD-decode"):
            # any other way of writing it (`match buf[0] { 0 => Ok(false), 1 => Ok(true), other => Err(..) }`): follow the
            # branches for every byte value 0..255 - each test is a comparison of, or a switch on, the input byte - and see
            # whether an Ok is built on the way to the return
            from rules.C13 import ieval, beval, NoEval
            def subst(e, v):
                if not isinstance(e, tuple) or not e:
                    return e
                if e[0] in ("proj", "call", "arg", "place") and "('arg', 1" in str(e) and e[0] != "call" or (e[0] == "call" and re.search(r"Index::index$|Deref::deref$", e[1]) and "('arg', 1" in str(e)):
                    return ("const", v)
                return tuple(subst(x, v) if isinstance(x, tuple) else x for x in e)
            oks_ = set(malsec.ok_blocks(b))
            accepted, undecided = set(), False
            try:
                for v in range(256):
                    bb, seen, hit_ok = 0, set(), False
                    while bb not in seen:
                        seen.add(bb)
                        hit_ok = hit_ok or bb in oks_
                        t = b.term(bb)
                        if t["k"] == "ret":
                            break
                        if t["k"] == "switch":
                            e = subst(flow.expr_of(b, t["o"], max_depth=12), v)
                            try:
                                val = ieval(e, {})
                            except NoEval:
                                val = int(beval(e, {}))
                            bb = next((tgt for x, tgt in t["ts"] if int(x) == val), t["else"])
                            continue
                        nxt = [x for x in b.succs(bb) if b.term(x)["k"] not in ("resume",)]
                        if len(nxt) != 1 and t["k"] != "assert":
                            raise NoEval("branching terminator " + t["k"])
                        bb = t.get("t") if t["k"] in ("assert", "call", "drop") and t.get("t") is not None else nxt[0]
                    if hit_ok:
                        accepted.add(v)
            except (NoEval, KeyError, TypeError, StopIteration):
                undecided = True
            ok = not undecided and accepted == {0, 1}
            ctx.ob("GUARD-decode", "Boolean", ok, "bytes other than 0 and 1 are rejected (evaluated for all 256 byte values)" if ok else ("no range check in Boolean::deserialize" if undecided else f"Boolean decoder accepts the byte values {sorted(accepted)[:6]}.. (expected exactly 0 and 1)"), site_of(b))
    # padded bit arrays
    n = 0
    for ty, size, err, im in sorted(ser_impls(facts), key=lambda x: x[0]):
        bits = facts.const_val(f"<{ty} as {SV}>::BITS")
        if bits is None or size is None or bits == 8 * size or not ("boolean_array" in ty or "galois_field" in ty):
            continue
        b = facts.bodies.get(f"<{ty} as ff::Serializable>::deserialize")
        if b is None:
            ctx.missing("GUARD-decode", f"{ty}::deserialize")
            continue
        n += 1
        ctx.count(bodies=1)
        g = malsec.guards(b, r"BitSlice::<T, O>::(not_any|any)$")
        ok = False
        site = None
        for sw, e, ed, call in g:
            s = str(call)
            is_not_any = call[1].endswith("not_any")
            rng_ok = re.search(r"'RangeFrom'\), \(\('const', %d\)" % bits, s) is not None
            accept = ed[1] if is_not_any else ed[0]
            reject = ed[0] if is_not_any else ed[1]
            oks = set(malsec.ok_blocks(b))
            ok = rng_ok and not (oks & b.reachable(reject)) and bool(oks & b.reachable(accept))
            site = sw
        ctx.ob("GUARD-decode", F.short(ty, 1), ok, f"Ok only if bits [{bits}..] are all zero" if ok else f"{F.short(ty,1)}::deserialize does not reject non-zero padding above bit {bits}", site_of(b, site) if site is not None else site_of(b))
    ctx.floor("GUARD-decode", "padded bit-array decoders", n, 9)
    # RP25519
    b = facts.bodies.get("<ff::curve_points::RP25519 as ff::Serializable>::deserialize")
    if b is None:
        ctx.missing("GUARD-decode", "RP25519::deserialize")
    else:
        dc = flow.find_calls(b, re.compile(r"CompressedRistretto::decompress$"))
        okr = False
        if dc:
            oo = [(bb, t) for bb, t in b.calls() if (F.callee(t)[0] or "").endswith("Option::<T>::ok_or") and "decompress" in str(flow.expr_of(b, t["args"][0]))]
            okr = bool(oo) and flow.question_mark(b, oo[0][1]["d"][0]) is not None
        if dc and not okr:
            # `match point.decompress() { Some(p) => Ok(..), None => Err(..) }`: no Ok on the None arm, an Err there
            from rules.C17 import variant_arms
            oks_ = set(malsec.ok_blocks(b))
            for sw_, pl_, arms_ in variant_arms(b, "std::option::Option", facts):
                if "decompress" in str(flow.expr_of(b, {"cp": pl_}, max_depth=6)) and "None" in arms_ and arms_.get("Some") != arms_["None"]:
                    nr = b.reachable(arms_["None"])
                    errs_ = [bb for bb, idx, st in b.iter_assigns() if st["r"]["k"] == "agg" and st["r"].get("adt") == "std::result::Result" and st["r"].get("vn") == "Err" and bb in nr]
                    okr = not (oks_ & nr) and bool(errs_) and bool(oks_ & b.reachable(arms_["Some"]))
        ctx.ob("GUARD-decode", "RP25519", okr, "non-canonical Ristretto encodings are rejected (decompress()?)" if okr else "RP25519 decoder does not reject encodings that fail to decompress", site_of(b))
    # sibling decoders of prime-order types (an encoding question: the reduced value itself is canonical)
    if not siblings:
        return
    ctx.rule("SIBLING-decoder: every decoder of a prime-order type rejects out-of-range input (fallible, guard v < PRIME); one that reduces (`*_mod_order`) with an Infallible error type is the deviant")
    b = facts.bodies.get("<ff::ec_prime_field::Fp25519 as ff::Serializable>::deserialize")
    if b is None:
        ctx.missing("SIBLING-decoder", "Fp25519::deserialize")
    else:
        red = flow.find_calls(b, re.compile(r"from_bytes_mod_order(_wide)?$"))
        canon = flow.find_calls(b, re.compile(r"from_canonical_bytes$"))
        err = next((e for t, s, e, i in ser_impls(facts) if t == "ff::ec_prime_field::Fp25519"), None)
        ok = bool(canon) and not red and err != "std::convert::Infallible"
        ctx.ob("SIBLING-decoder", "Fp25519", ok, "canonical scalars only" if ok else "Fp25519::deserialize reduces its input modulo the group order (Scalar::from_bytes_mod_order, DeserializationError = Infallible): the 32 bytes ff..ff decode to a value whose re-encoding differs — non-canonical encodings are accepted, unlike Fp31/Fp32BitPrime/Fp61BitPrime", site_of(b, red[0][0]) if red else site_of(b))


def event_type(ctx, facts):
    ctx.rule("TABLE-event: HybridEventType::try_from(u8) returns Ok(variant i) exactly for the declared discriminant of variant i and Err otherwise")
    adt = facts.adts.get("report::hybrid::HybridEventType")
    b = facts.bodies.get("<report::hybrid::HybridEventType as std::convert::TryFrom<u8>>::try_from")
    if adt is None or b is None:
        return ctx.missing("TABLE-event", "HybridEventType / TryFrom<u8>")
    discr = {int(v["discr"]): i for i, v in enumerate(adt["variants"])}
    got = {}
    other_err = False
    for bb in sorted(b.live_blocks()):
        t = b.term(bb)
        if t["k"] == "switch" and F.op_local(t["o"]) is not None:
            for v, tgt in t["ts"]:
                for x in sorted(b.reachable(tgt)):
                    for s in b.stmts(x):
                        if "p" in s and s["r"]["k"] == "agg" and s["r"].get("adt") == "report::hybrid::HybridEventType":
                            got.setdefault(int(v), s["r"]["vi"])
                    if got.get(int(v)) is not None:
                        break
            reach = b.reachable(t["else"])
            other_err = any(x in reach for x in malsec.err_aggs(b, "UnknownEventType")) and not (set(malsec.ok_blocks(b)) & reach)
    ok = got == discr and other_err
    ctx.ob("TABLE-event", "try_from-inverse-of-as-u8", ok, f"byte -> variant table {got} equals the declared discriminants {discr}; other bytes => Err" if ok else f"byte -> variant table {got} vs declared discriminants {discr} (other => Err: {other_err})", site_of(b))


def codecs(ctx, facts):
    ctx.rule("FIELDS-codec: HybridConversionInfo::to_bytes writes domain, 0, key_id, timestamp, epsilon, sensitivity and from_bytes reads them back at the same offsets/widths; HybridImpressionInfo likewise (key_id); Vec<T>::to_bytes writes row i at [i*Size,(i+1)*Size)")
    tb = facts.bodies.get("report::hybrid_info::HybridConversionInfo::to_bytes")
    fb = facts.bodies.get("report::hybrid_info::HybridConversionInfo::from_bytes")
    if tb is None or fb is None:
        ctx.missing("FIELDS-codec", "HybridConversionInfo::{to_bytes, from_bytes}")
    else:
        from rules.C10 import buffer_writes
        seq = []
        wr = buffer_writes(facts, tb)
        for wb_, bb, t, e in wr:
            fn = F.callee(t)[0] or ""
            if re.search(r"Vec::<T, A>::(push|extend_from_slice)$", fn):
                names = [x for x in flow.field_names_in(e)]
                if names:
                    seq.append(names[0])
                elif e == ("const", 0):
                    seq.append("<0>")
        want = ["conversion_site_domain", "<0>", "key_id", "timestamp", "epsilon", "sensitivity"]
        ctx.ob("FIELDS-codec", "conversion:to_bytes-order", seq == want, f"writes {seq}" if seq == want else f"to_bytes writes {seq}, expected {want}", site_of(tb))
        # from_bytes: aggregate operands and their byte ranges
        rd = {}
        adt = facts.adts.get("report::hybrid_info::HybridConversionInfo")
        names = [f["name"] for f in adt["variants"][0]["fields"]] if adt else []
        for bb, idx, s in fb.iter_assigns():
            r = s["r"]
            if r["k"] == "agg" and r.get("adt") == "report::hybrid_info::HybridConversionInfo":
                for nm, op in zip(names, r["ops"]):
                    e = str(flow.expr_of(fb, op))
                    m = re.search(r"'Range'\), \(\('const', (\d+)\), \('const', (\d+)\)\)", e)
                    if m:
                        rd[nm] = (int(m.group(1)), int(m.group(2)))
                    elif "position" in e and nm == "conversion_site_domain":
                        rd[nm] = "prefix"
                    else:
                        rd[nm] = e[:60]
        okr = rd.get("conversion_site_domain") == "prefix" and rd.get("timestamp") == (1, 9) and rd.get("epsilon") == (9, 17) and rd.get("sensitivity") == (17, 25)
        ctx.ob("FIELDS-codec", "conversion:from_bytes-layout", okr, f"reads {rd}" if okr else f"from_bytes layout {rd} does not mirror to_bytes (key_id@0, timestamp@1..9, epsilon@9..17, sensitivity@17..25 after the delimiter)", site_of(fb))
        be = [F.callee(t)[0] or "" for wb2_ in {id(x): x for x in [tb] + [y[0] for y in wr]}.values() for _, t in wb2_.calls()] + [F.callee(t)[0] or "" for _, t in fb.calls()]
        ctx.ob("FIELDS-codec", "conversion:same-endianness", sum(1 for x in be if x.endswith("to_be_bytes")) == 3 and sum(1 for x in be if x.endswith("from_be_bytes")) == 3, "three big-endian fields written and read")
    vb = next((x for p, x in facts.bodies.items() if re.search(r"<std::vec::Vec<T> as query::executor::Result>::to_bytes$", p)), None)
    if vb is None:
        ctx.missing("FIELDS-codec", "impl Result for Vec<T>")
    else:
        okv = False
        for bb, idx, s in vb.iter_assigns():
            r = s["r"]
            if r["k"] == "agg" and r.get("adt") == "std::ops::Range":
                lo, hi = flow.expr_of(vb, r["ops"][0]), flow.expr_of(vb, r["ops"][1])
                if lo[0] == "bin" and lo[1] == "Mul" and hi[0] == "bin" and hi[1] == "Mul" and "USIZE" in str(lo) and "USIZE" in str(hi):
                    okv = hi[2][0] == "bin" and hi[2][1] == "Add" and ("const", 1) in (hi[2][2], hi[2][3]) and str(hi[2][2]) == str(lo[2]) or (hi[2][0] == "bin" and str(lo[2]) in str(hi[2]))
        alloc = any((F.callee(t)[0] or "").endswith("from_elem") and "USIZE" in str(flow.expr_of(vb, t["args"][1])) for _, t in vb.calls())
        ctx.ob("FIELDS-codec", "vec-result-layout", okv and alloc, "row i is serialized into [i*Size, (i+1)*Size) of a len*Size buffer" if okv and alloc else "result rows are not laid out at stride Size", site_of(vb))


# ---------------------------------------------------------------------------------------------
TRUNC = re.compile(r"Iterator::(take|skip|step_by|take_while|skip_while|nth|rev|filter|filter_map|last|find|position|peekable|fuse|chain|cycle)$")
SER_BODY = re.compile(r"(as ff::Serializable>|<impl ff::Serializable for .*>)::(serialize|deserialize)$")


def _walk(e):
    if isinstance(e, tuple):
        yield e
        for x in e[1:]:
            if isinstance(x, tuple):
                if x and isinstance(x[0], str):
                    yield from _walk(x)
                else:
                    for y in x:
                        yield from _walk(y)


def _is_buf(e, argn):
    e = flow.strip_casts(e)
    while e[0] == "call" and re.search(r"(Deref::deref|DerefMut::deref_mut|AsRef::as_ref|AsMut::as_mut|as_slice|as_mut_slice)$", e[1]) and e[2]:
        e = flow.strip_casts(e[2][0])
    return e == ("arg", argn)


def _array_len(tys):
    for ty in tys:
        m = re.search(r"; (\d+)\]", ty or "") or re.search(r"StdArray<\w+, (\d+)>", ty or "")
        if m:
            return int(m.group(1))
    return None


def _single_array_len(b):
    """length shared by all array-typed locals of the body (None if there are none or they disagree)"""
    ls = set()
    for l in range(len(b.locals)):
        m = re.match(r"^&?(mut )?\[.*; (\d+)\]$", b.local_ty(l) or "")
        if m:
            ls.add(int(m.group(2)))
    return ls.pop() if len(ls) == 1 else None


def _mentions_arg(b, argn):
    txt = []
    for bb in b.live_blocks():
        for st in b.stmts(bb):
            txt.append(st)
        txt.append(b.term(bb))
    import json
    blob = json.dumps(txt)
    return re.search(r'"(cp|mv)": \[%d[\],]' % argn, blob) is not None or re.search(r'"p": \[%d[\],]' % argn, blob) is not None


def cover(ctx, facts):
    """Every composite encoder/decoder touches all `Size` bytes of its buffer: explicit byte ranges tile [0, Size);
    loop-indexed ranges are [sz*i, sz*(i+1)) for i in 0..L with L the element count; iterator pipelines over the whole
    buffer contain no truncating / reordering adapter (take(k) only with k >= element count)."""
    from vlib import bounds
    ctx.rule("COVER: in every Serializable::{serialize,deserialize} body the buffer is consumed completely - constant ranges tile [0,Size), loop ranges are sz*i..sz*(i+1) over 0..L, whole-buffer iterator pipelines have no take/skip/step_by/rev/filter (take(k) only if k >= number of elements)")
    sizes = {}
    for im in facts.impls:
        if im.get("trait") == "ff::Serializable":
            for it in im["items"]:
                if it["name"] == "Size" and it.get("usize"):
                    sizes[im["self"]] = int(it["usize"])
    n = 0
    for b in sorted(facts.non_test_bodies(), key=lambda x: x.path):
        m = SER_BODY.search(b.path)
        if not m or not b.file.startswith("ipa-core/"):
            continue
        which = m.group(2)
        argn = 1 if which == "deserialize" else 2
        self_ty = re.sub(r"^<| as ff::Serializable>::\w+$", "", b.path) if b.path.startswith("<") else re.sub(r"^.*<impl ff::Serializable for (.*)>::\w+$", r"\1", b.path)
        size = sizes.get(self_ty)
        name = f"{short_ty(self_ty)}::{which}"
        tree = [x for x in facts.tree(b.root) if x.path == b.path or x.path.startswith(b.path + "::{closure")]
        ctx.count(bodies=len(tree))
        n += 1
        # 1. truncating adapters anywhere in the body or its closures
        for x in tree:
            for bb, t in x.calls():
                fn = F.callee(t)[0] or ""
                if not TRUNC.search(fn):
                    continue
                ad = fn.split("::")[-1]
                ok, why = False, f"`{ad}` in a wire codec drops or reorders elements"
                if ad == "take":
                    k = flow.fold(flow.strip_casts(flow.expr_of(x, t["args"][1])))
                    recv = flow.expr_of(x, t["args"][0])
                    L = None
                    for node in _walk(recv):
                        if node[0] in ("place", "arg", "upvar"):
                            pass
                    tys = [x.local_ty(l) for l in range(len(x.locals))]
                    # element count: array type being iterated, else Size / chunk size
                    for node in _walk(recv):
                        if node[0] == "call" and re.search(r"(iter|iter_mut|into_iter)$", node[1]) and node[2]:
                            inner = flow.strip_casts(node[2][0])
                            if inner[0] == "place":
                                L = _array_len([x.local_ty(inner[1])])
                            elif inner[0] == "arg":
                                L = _array_len([x.local_ty(inner[1])])
                        if node[0] == "call" and re.search(r"chunks(_exact|_mut|_exact_mut)?$", node[1]) and size and len(node[2]) > 1:
                            c = flow.strip_casts(node[2][1])
                            if c[0] == "const" and isinstance(c[1], int) and c[1]:
                                L = size // c[1]
                    if L is None:
                        L = _single_array_len(x)
                    if L is None:
                        L = _array_len([x.locals[0]["ty"], self_ty])
                    if k[0] == "const" and isinstance(k[1], int) and L is not None and k[1] >= L:
                        ok, why = True, f"take({k[1]}) >= {L} elements"
                    else:
                        why = f"take({k[1] if k[0] == 'const' else '?'}) over {L if L is not None else 'an unknown number of'} elements: the last element(s) are never encoded/decoded (round trip and range validation lost for them)"
                ctx.ob("COVER", f"{name}:{ad}", ok, why, site_of(x, bb))
        # 2./3. reads of the buffer (associated consts keep their generic arguments here: `A::Size::USIZE` and
        # `B::Size::USIZE` are different bounds even though both are "typenum::Unsigned::USIZE")
        const_ranges, loop_ranges, whole = [], [], 0
        flow.CONST_WITH_GA = True
        for x in tree:
            if x.path != b.path:
                continue
            for bb, t in x.calls():
                fn = F.callee(t)[0] or ""
                if not t["args"]:
                    continue
                a0 = flow.expr_of(x, t["args"][0])
                if re.search(r"Index(Mut)?::index(_mut)?$", fn) and _is_buf(a0, argn):
                    ie = flow.expr_of(x, t["args"][1])
                    if ie[0] == "agg" and isinstance(ie[1], tuple) and ie[1][0].startswith("std::ops::Range"):
                        kind = ie[1][0].split("::")[-1]
                        ops = ie[2]
                        lo = ops[0] if kind in ("Range", "RangeFrom", "RangeInclusive") else ("const", 0)
                        hi = ops[-1] if kind in ("Range", "RangeTo") else (None if kind == "RangeFrom" else ops[-1])
                        if kind == "RangeFull":
                            whole += 1
                        elif "Iterator::next" in str(ie):
                            loop_ranges.append((bb, lo, hi, x))
                        else:
                            const_ranges.append((bb, lo, hi, x))
                    else:
                        const_ranges.append((bb, ie, ("bin", "Add", ie, ("const", 1)), x))
                elif any(_is_buf(flow.expr_of(x, a), argn) for a in t["args"]) and not re.search(r"(Deref::deref|DerefMut::deref_mut|AsRef::as_ref|AsMut::as_mut)$", fn):
                    whole += 1
            # plain moves/copies of the whole buffer (e.g. `*buf = ..` or `(*buf).into()` handled as calls above)
            for bb, idx, st in x.iter_assigns():
                p_ = st["p"]
                if p_[0] == argn and p_[1:] == ["*"]:
                    whole += 1
        flow.CONST_WITH_GA = False
        if loop_ranges:
            bb, lo, hi, x = loop_ranges[0]
            rng = [nd for nd in _walk(lo) if nd[0] == "agg" and isinstance(nd[1], tuple) and nd[1][0] == "std::ops::Range"]
            L = _array_len([self_ty, x.locals[0]["ty"]] + [x.local_ty(l) for l in range(1, min(len(x.locals), 12))])
            okr = bool(rng) and rng[0][2][0] == ("const", 0) and rng[0][2][1][0] == "const" and L is not None and rng[0][2][1][1] == L
            if not rng and "Iterator::enumerate" in str(lo):
                # index from enumerate() over the element array itself: the count is the array's length (take(k) is judged separately)
                Le = None
                for nd in _walk(lo):
                    if nd[0] == "call" and re.search(r"(iter|iter_mut|into_iter)$", nd[1]) and nd[2]:
                        inner = flow.strip_casts(nd[2][0])
                        if inner[0] in ("place", "arg"):
                            Le = _array_len([x.local_ty(inner[1])])
                if Le is None:
                    Le = _single_array_len(x)
                okr = Le is not None and Le == L
            ctx.ob("COVER", f"{name}:loop-count", okr, f"loop runs over 0..{L}" if okr else f"the element loop does not run over 0..{L} (element count of the type): trailing elements are never encoded/decoded", site_of(x, bb))
            i = [nd for nd in _walk(lo) if nd[0] == "proj" and "Iterator::next" in str(nd)]
            iv = i[0] if i else None
            lo_, hi_ = flow.strip_casts(lo), flow.strip_casts(hi)
            def mul_of(e, j):
                return e[0] == "bin" and e[1] == "Mul" and (flow.strip_casts(e[2]) == j or flow.strip_casts(e[3]) == j)
            oks = iv is not None and mul_of(lo_, iv) and hi_[0] == "bin" and hi_[1] == "Mul" and any(flow.strip_casts(z) == ("bin", "Add", iv, ("const", 1)) for z in (hi_[2], hi_[3]))
            if oks:
                sz_lo = flow.strip_casts(lo_[3]) if flow.strip_casts(lo_[2]) == iv else flow.strip_casts(lo_[2])
                sz_hi = flow.strip_casts(hi_[3]) if flow.strip_casts(hi_[2]) == ("bin", "Add", iv, ("const", 1)) else flow.strip_casts(hi_[2])
                oks = sz_lo == sz_hi
            if not oks and iv is not None:
                # by evaluation: with the loop index i and the element size as symbols, lo = size*i and hi = size*(i+1)
                # (`start = sz * i; start..start + sz` and the like)
                from rules.C13 import ieval, NoEval

                def atoms(e):
                    e = flow.strip_casts(e)
                    if e == iv or (e[0] == "const" and isinstance(e[1], int)):
                        return set()
                    if e[0] == "bin":
                        return atoms(e[2]) | atoms(e[3])
                    return {e}
                at = atoms(lo_) | atoms(hi_)
                try:
                    if len(at) <= 1:
                        good = True
                        for sv in (5, 7):
                            env = {a_: sv for a_ in at}
                            c = ieval(hi_, {**env, iv: 0}) - ieval(lo_, {**env, iv: 0})
                            good = good and c > 0 and (not at or c == sv) and all(ieval(lo_, {**env, iv: k_}) == c * k_ and ieval(hi_, {**env, iv: k_}) == c * (k_ + 1) for k_ in (0, 1, 3, 6))
                        oks = good
                except NoEval:
                    pass
            ctx.ob("COVER", f"{name}:loop-stride", oks, "element i occupies bytes sz*i..sz*(i+1)" if oks else "the per-element byte range is not sz*i..sz*(i+1): elements overlap or leave gaps", site_of(x, bb))
        elif const_ranges:
            rs = []
            for bb, lo, hi, x in const_ranges:
                rs.append((bounds.lin_of(lo), None if hi is None else bounds.lin_of(hi), bb, x))
            co = bounds.ConstOrder(facts)
            # order: start at 0, then chain by equality of hi_k and lo_{k+1}
            chain, cur, used = [], bounds.Lin(None, 0), set()
            progress = True
            while progress:
                progress = False
                for k, (lo, hi, bb, x) in enumerate(rs):
                    if k in used:
                        continue
                    if lo.sym == cur.sym and lo.off == cur.off:
                        used.add(k)
                        chain.append(k)
                        cur = hi
                        progress = cur is not None
                        break
            gaps = [k for k in range(len(rs)) if k not in used]
            end_ok = cur is None or (size is not None and cur.sym is None and cur.off == size) or (size is None and cur is not None and False)
            if cur is not None and size is None:
                end_ok = True   # generic Size: the end bound is symbolic, type-level
            ok = not gaps and end_ok
            x0 = rs[0][3]
            ctx.ob("COVER", f"{name}:ranges-tile-buffer", ok, f"{len(rs)} byte ranges tile [0, {size if size is not None else 'Size'})" if ok else (f"byte ranges of the buffer do not tile it: {'a range does not start where the previous one ended' if gaps else 'the last range ends at ' + repr(cur) + ' but Size is ' + str(size)} (bytes never written/read, or read twice)"), site_of(x0, rs[gaps[0]][2] if gaps else rs[-1][2]))
        elif whole or _mentions_arg(b, argn):
            ctx.ob("COVER", f"{name}:whole-buffer", True, "the buffer is handed over / assigned as a whole (no partial ranges)", site_of(b))
        else:
            ok = size == 0
            ctx.ob("COVER", f"{name}:whole-buffer", ok, "zero-sized" if ok else f"{which} never touches its buffer", site_of(b))
    ctx.floor("COVER", "Serializable bodies", n, 80)
    # array types: Size == element count * element Size (zip(self, chunks(sz)) silently stops at the shorter side)
    na = 0
    for b in facts.non_test_bodies():
        m = re.search(r"<impl ff::Serializable for (.*)>::deserialize$", b.path)
        if not m:
            continue
        self_ty = m.group(1)
        am = re.search(r"\[([\w:]+); (\d+)\]", b.locals[0]["ty"])
        if not am or self_ty not in sizes:
            continue
        na += 1
        elem = sizes.get(am.group(1))
        L = int(am.group(2))
        ok = elem is not None and sizes[self_ty] == elem * L
        ctx.ob("COVER", f"{short_ty(self_ty)}:size-is-count-times-element", ok, f"Size {sizes[self_ty]} = {L} x {elem}" if ok else f"declared Size {sizes[self_ty]} is not {L} elements x {elem} bytes: the zip over (elements, chunks) stops early or the conversion to the array panics", site_of(b))
    ctx.floor("COVER", "array codecs", na, 3)


def short_ty(t):
    return re.sub(r"\b(\w+::)+", "", t)[:70]


def result_layout(ctx, facts):
    """Result bytes handed to the report collector: row i occupies bytes [i*Size, (i+1)*Size) of a buffer of len*Size."""
    ctx.rule("LAYOUT-result: <Vec<T> as query::executor::Result>::to_bytes allocates len(self)*Size bytes, iterates self.iter().enumerate() and serializes row i into bytes i*Size..(i+1)*Size; no truncating adapter")
    b = facts.bodies.get("<std::vec::Vec<T> as query::executor::Result>::to_bytes")
    if b is None:
        ctx.missing("LAYOUT-result", "<Vec<T> as Result>::to_bytes")
        return
    ctx.count(bodies=1)
    usz = ("const", "typenum::Unsigned::USIZE")
    alloc = [(bb, t) for bb, t in b.calls() if re.search(r"vec::from_elem$|Vec::<T>::with_capacity$", F.callee(t)[0] or "")]
    oka = False
    if alloc:
        n = flow.strip_casts(flow.expr_of(b, alloc[0][1]["args"][-1], max_depth=20))
        ln = ("call", "std::vec::Vec::<T, A>::len", (("arg", 1),))
        oka = n[0] == "bin" and n[1] == "Mul" and {str(flow.strip_casts(n[2])), str(flow.strip_casts(n[3]))} == {str(ln), str(usz)}
    ctx.ob("LAYOUT-result", "buffer-size", oka, "len * Size bytes" if oka else "the result buffer is not len(self) * Size bytes long", site_of(b, alloc[0][0]) if alloc else site_of(b))
    ix = [(bb, t) for bb, t in b.calls() if re.search(r"IndexMut::index_mut$", F.callee(t)[0] or "")]
    oks = oki = False
    if len(ix) == 1:
        r = flow.expr_of(b, ix[0][1]["args"][1], max_depth=40)
        if r[0] == "agg" and isinstance(r[1], tuple) and r[1][0] == "std::ops::Range":
            lo, hi = flow.strip_casts(r[2][0]), flow.strip_casts(r[2][1])
            iv = [nd for nd in _walk(lo) if nd[0] == "proj" and "Iterator::next" in str(nd)]
            if iv:
                i = iv[0]
                oks = lo in (("bin", "Mul", i, usz), ("bin", "Mul", usz, i)) and hi in (("bin", "Mul", ("bin", "Add", i, ("const", 1)), usz), ("bin", "Mul", usz, ("bin", "Add", i, ("const", 1))))
                si = str(i)
                oki = "Iterator::enumerate" in si and "::iter'" in si and "('arg', 1)" in si and i[-1] == 0
    ctx.ob("LAYOUT-result", "row-stride", oks, "row i -> bytes i*Size..(i+1)*Size" if oks else "rows are not written at offsets i*Size..(i+1)*Size (overlap or gaps in the result the collector parses)", site_of(b, ix[0][0]) if ix else site_of(b))
    ctx.ob("LAYOUT-result", "all-rows-in-order", oki, "index = position in self.iter().enumerate()" if oki else "the row index does not come from enumerating all rows of self in order", site_of(b, ix[0][0]) if ix else site_of(b))
    tr = [F.callee(t)[0] for bb, t in b.calls() if TRUNC.search(F.callee(t)[0] or "")]
    ctx.ob("LAYOUT-result", "no-truncation", not tr, "no take/skip/rev/filter on the rows" if not tr else f"`{tr[0].split('::')[-1]}` drops or reorders result rows", site_of(b))
    ser = [(bb, t) for bb, t in b.calls() if (F.callee(t)[0] or "").endswith("Serializable::serialize")]
    okr = len(ser) == 1 and str(flow.expr_of(b, ser[0][1]["args"][0], max_depth=30)).endswith("'as:Some', '0', 1)")
    ctx.ob("LAYOUT-result", "serializes-the-row", okr, "row.serialize(slot i)" if okr else "the value serialized into slot i is not row i", site_of(b, ser[0][0]) if ser else site_of(b))


def query_string_fields(ctx, facts):
    """QueryConfig -> HTTP query string: every field of the per-query-type parameter struct is written on every path of
    its arm, or - flag style - is written under a test of that same field only (so that an omitted field can only mean
    `this field has its default`).  A field written under a condition on ANOTHER field does not round-trip."""
    ctx.rule("FIELDS-query: in <QueryConfigQueryParams as Display>::fmt every field of HybridQueryParams is either a formatted argument that is written on all success paths of the MaliciousHybrid arm, or is mentioned only through guards on that very field; no field is written under a guard on a different field")
    b = next((x for p, x in facts.bodies.items() if p.endswith("QueryConfigQueryParams as std::fmt::Display>::fmt")), None)
    adt = facts.adts.get("helpers::transport::query::hybrid::HybridQueryParams")
    if b is None or adt is None:
        ctx.missing("FIELDS-query", "Display for QueryConfigQueryParams / HybridQueryParams")
        return
    ctx.count(bodies=1)
    fields = [f["name"] for f in adt["variants"][0]["fields"]]
    dom = b.dominators()
    arm = None
    for bb in sorted(b.live_blocks()):
        t = b.term(bb)
        if t["k"] == "switch" and str(flow.expr_of(b, t["o"], max_depth=12)).startswith("('disc',") and "'query_type')" in str(flow.expr_of(b, t["o"], max_depth=12)):
            qa = facts.adts.get("helpers::transport::query::QueryType")
            names = [v["name"] for v in qa["variants"]] if qa else []
            for v, tgt in t["ts"]:
                if int(v) < len(names) and names[int(v)] == "MaliciousHybrid":
                    arm = tgt
            if arm is None and names and names[-1] == "MaliciousHybrid":
                arm = t["else"]
    if arm is None:
        ctx.missing("FIELDS-query", "MaliciousHybrid arm in Display::fmt")
        return
    oks = [bb for bb in malsec.ok_blocks(b) if bb in b.reachable(arm)]
    guards = [(tgt, f) for tgt, f in flow.edge_guards(b)]
    for fld in fields:
        # blocks that format this field
        wr = []
        for bb, t in b.calls():
            if re.search(r"Argument::<'_>::new_(display|debug|lower_exp|upper_hex|lower_hex)$", F.callee(t)[0] or "") and bb in b.reachable(arm):
                e = flow.expr_of(b, t["args"][0], max_depth=16)
                if fld in flow.field_names_in(e) or f"'{fld}'" in str(e):
                    wr.append(bb)
        # guards (inside the arm) that dominate the writes / that test this field
        own_guard = [tgt for tgt, f in guards if tgt in b.reachable(arm) and f"'{fld}'" in str(f)]
        if wr:
            w = wr[0]
            # which foreign-field guards dominate the write?
            foreign = []
            for tgt, f in guards:
                if tgt in b.reachable(arm) and flow.dominates(dom, tgt, w) and flow.dominates(dom, arm, tgt):
                    s_ = str(f)
                    if "Try::branch" in s_ or "'disc'" in s_[:12]:
                        continue
                    mentioned = [x for x in fields if f"'{x}'" in s_]
                    if any(x != fld for x in mentioned):
                        foreign.append([x for x in mentioned if x != fld][0])
            skip = [] if w == arm else [o for o in oks if o in b.reachable(arm, avoid=frozenset([w]))]
            only_own = bool(skip) and not foreign and bool(own_guard)
            ok = not foreign and (not skip or only_own)
            ctx.ob("FIELDS-query", f"HybridQueryParams.{fld}", ok, "always part of the query string" if ok and not skip else ("omitted only under a test of the field itself" if ok else f"`{fld}` is written only under a condition on `{foreign[0] if foreign else 'something else'}`: a configuration whose `{fld}` differs from the server's default loses it in the HTTP round trip"), site_of(b, w))
        else:
            ok = bool(own_guard)
            ctx.ob("FIELDS-query", f"HybridQueryParams.{fld}", ok, "flag: a literal is written under a test of the field itself" if ok else f"`{fld}` never reaches the query string", site_of(b))


# ---------------------------------------------------------------------------------------------
def exact_length(ctx, facts):
    """A decoder that looks only at a prefix of its input accepts every extension of a valid encoding."""
    ctx.rule("EXACT-length: every slice decoder of the report metadata (report::hybrid_info::*::from_bytes) returns Ok only behind a branch edge that pins the length of its input (or of the remainder it has not yet consumed) with an equality: trailing bytes are an error, as in the sibling decoders")
    n = 0
    delegated = {}
    for root in sorted(facts.by_root):
        if not re.search(r"^report::hybrid_info::\w+::from_bytes$", root) or facts.is_test_path(root):
            continue
        b = facts.bodies.get(root)
        if b is None:
            continue
        n += 1
        ctx.count(bodies=1)
        dom = b.dominators()
        oks = [bb for bb, idx, s in b.iter_assigns() if s["p"] == [0] and s["r"]["k"] == "agg" and s["r"].get("adt") == "std::result::Result" and s["r"].get("vn") == "Ok"]
        def pins(f):
            op, l, r = f
            if op != "Eq" or l is None or r is None:
                return False
            for x, y in ((l, r), (r, l)):
                if x[0] == "call" and x[1].endswith("<impl [T]>::len") and ("arg", 1) in [z[:2] for z in _walk(x)] or (x[0] == "call" and x[1].endswith("::len") and "arg', 1" in str(x)):
                    return True
            return False
        good = bool(oks) and all(flow.holds(b, dom, o, pins) for o in oks)
        # slice patterns (`let &[a] = bytes`) compile to a length switch as well: accept an exact-length pattern edge
        if not good and oks:
            def pins_len(f):
                op, l, r = f
                # `let &[a, b] = bytes` tests the slice's length (its pointer metadata) for equality
                return op == "Eq" and any(x is not None and x[0] == "un" and x[1] in ("PtrMetadata", "Len") and x[2][:2] == ("arg", 1) for x in (l, r))
            good = all(flow.holds(b, dom, o, pins_len) for o in oks)
        if not good and oks:
            # whole input handed to a sibling decoder whose verdict is `?`-propagated
            for cbb, ct in b.calls():
                fn = F.callee(ct)[0] or ""
                if re.search(r"^report::hybrid_info::\w+::from_bytes$", fn) and fn != root and flow.expr_of(b, ct["args"][0]) == ("arg", 1) and len(ct["d"]) == 1 and flow.question_mark(b, ct["d"][0]) is not None and all(flow.dominates(dom, cbb, o) for o in oks):
                    delegated.setdefault(root, fn)
                    good = None
        ty = root.split("::")[-2]
        if good is None:
            continue
        ctx.ob("EXACT-length", ty, good, "Ok only if the input length is pinned by an equality" if good else f"{ty}::from_bytes can return Ok after reading only a prefix of its input: a record with bytes appended to its metadata is accepted (and decrypts, because the appended bytes are not part of the bound info) - the sibling decoder rejects trailing bytes", site_of(b, oks[0]) if oks else site_of(b))
    for root, callee in sorted(delegated.items()):
        ctx.ob("EXACT-length", root.split("::")[-2], True, f"hands its whole input to {callee.split('::')[-2]}::from_bytes and propagates its verdict")
    ctx.floor("EXACT-length", "report metadata slice decoders", n, 2)
