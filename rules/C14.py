"""C14  Send and receive buffers behave as an ordered byte queue under all interleavings.

Decided statically (necessary conditions; DESIGN.md §3/C14) — waker and cursor discipline:
  WAKE-1   Pending => registered: in every fn of helpers::buffers returning Poll<_>, no explicit
           Poll::Pending is reachable on a path on which the task context / waker was not yet handed to
           a call (save_waker, Waiting::add, add_waker, an inner poll).
  SLOT     the right waker slot: write parks in write_ready and wakes stream_ready; take parks in
           stream_ready and wakes write_ready; close wakes stream_ready.
  SLOT-latest  State::save_waker stores the waker of the CURRENT poll on every path (clone_from / replace / insert /
           assignment of cx.waker(), or a will_wake() == true edge): a slot that keeps an older waker sends the wake-up
           to a context that is no longer polling (future moved, re-polled from another task, select!).
           State::wake takes the stored waker out (the slot is empty afterwards) and wakes it.
  WAKE-2   state change => wake (avoid-reachability): after Next::write, every path to return passes
           wake(stream_ready) unless can_read() was false; after CircularBuf::take, every path passes
           wake(write_ready) unless can_write() — sampled BEFORE the take — was true; close => wake;
           Send::poll ready => waiting.wake(i + 1); take_next ready => waiting.wake(next);
           every Ready(message) of OperatingState::poll_next is preceded by wake_next.
  GUARD    next_op: Pending only on the is_ok() edge of Waiting::add (a refused registration loops and
           re-reads `next`), `next.fetch_add(1)` only on the is_ready() edge; WaitingShard::add refuses
           exactly when current < woken_at.
  WHO      cursors: CircularBuf.read is assigned only in take and CircularBuf.write only in Next::write,
           both from inc(cursor, _) = wrap(cursor + delta), wrap = % (2*len), mask = % len; closed only in
           close; WaitingShard.woken_at only as max(woken_at, i); OperatingState.next only as next + 1 in
           wake_next; OrderingSender.next only by fetch_add(1).
"""
import re
from vlib import facts as F, flow, wake
from vlib.core import site_of

# the overflow list and the stall-detection bookkeeping of the buffers have a sibling without the stall-detection
# feature (the one the helper image ships): config N compiles it
CONFIGS_QUICK = ["Q", "N"]
LEVEL = "other"
EXPLANATION = "C14: WAKE-1 may-analysis, waker-slot census, avoid-reachability PAIR rules for state-change => wake, guard polarity in next_op, who-may-write census of the cursors with expression-shape checks."

M = "helpers::buffers::"
OS = M + "ordering_sender::"
CB = M + "circular::CircularBuf::"
UR = M + "unordered_receiver::"


def run(ctx):
    facts = ctx.facts()
    wake1(ctx, facts)
    slots(ctx, facts)
    latest_waker(ctx, facts)
    wake2(ctx, facts)
    guards(ctx, facts)
    cursors(ctx, facts)
    ring(ctx, facts)
    ring_ops(ctx, facts)
    waker_store(ctx, facts)
    waker_ring(ctx, facts)
    waker_overflow(ctx, facts)
    overflow_drain(ctx, facts)
    from rules import C13
    C13.spare(ctx, facts)             # the receive side's reassembly of messages from chunks
    ctx.assume("std::task::Waker, std::sync::Mutex and AtomicUsize behave as documented")


def wake1(ctx, facts):
    ctx.rule("WAKE-1: no `Poll::Pending` aggregate reachable from entry without having left a call that received the Context/Waker")
    n = 0
    for b in sorted(facts.non_test_bodies(), key=lambda x: x.path):
        if not b.path.startswith(M) and not b.root.startswith(M) and "helpers::buffers::" not in b.root:
            continue
        if not wake.returns_poll(b) or not wake.pending_sites(b):
            continue
        n += 1
        ctx.count(bodies=1)
        bad, reg = wake.unregistered_pending(b)
        for k, (bb, idx) in enumerate(wake.pending_sites(b)):
            isbad = (bb, idx) in bad
            ctx.ob("WAKE-1", f"{b.path}#pending{k}", not isbad,
                   "Pending is returned only after the waker was registered / an inner poll was delegated to" if not isbad else "Poll::Pending can be returned on a path that never registered the waker: the task is never woken (lost wake-up)",
                   site_of(b, bb, idx))
    ctx.floor("WAKE-1", "Poll fns with explicit Pending in helpers::buffers", n, 6)


def _calls_with_field(b, callee_pat, field):
    out = []
    for bb, t in flow.find_calls(b, callee_pat):
        if t["args"] and field in flow.field_names_in(flow.expr_of(b, t["args"][0])):
            out.append(bb)
    return out


def slots(ctx, facts):
    ctx.rule("SLOT: State::write saves the waker in write_ready and wakes stream_ready; State::take saves in stream_ready and wakes write_ready; State::close wakes stream_ready")
    table = [("write", "save_waker", "write_ready"), ("write", "wake", "stream_ready"),
             ("take", "save_waker", "stream_ready"), ("take", "wake", "write_ready"),
             ("close", "wake", "stream_ready")]
    for fn, callee, field in table:
        b = facts.bodies.get(OS + "State::" + fn)
        if b is None:
            ctx.missing("SLOT", OS + "State::" + fn)
            continue
        calls = flow.find_calls(b, re.compile(r"ordering_sender::State::%s$" % callee))
        good = _calls_with_field(b, re.compile(r"ordering_sender::State::%s$" % callee), field)
        ok = bool(calls) and len(good) == len(calls)
        ctx.ob("SLOT", f"State::{fn}:{callee}({field})", ok,
               f"{callee} operates on {field}" if ok else f"State::{fn} calls {callee} on a different waker slot than {field} (or not at all): the parked side is never woken",
               site_of(b, calls[0][0]) if calls else site_of(b))


def _pair(ctx, rule, inst, b, acquire_bbs, release_bbs, cut_edges, what_ok, what_bad, exits=("ret",)):
    if not acquire_bbs:
        ctx.missing(rule, inst + " (acquire site)")
        return
    reach = flow.reach_avoiding(b, acquire_bbs, set(release_bbs), set(cut_edges))
    bad = [x for x in reach if b.term(x)["k"] in exits]
    ctx.ob(rule, inst, not bad, what_ok if not bad else what_bad, site_of(b, acquire_bbs[0]))


def _bool_switch_of_call(b, call_bb):
    """the boolean switch testing the result of the call at call_bb: returns (switch_bb, target taken when the call
    returned false, target taken when it returned true).  The result may be copied and negated (`let was_full =
    !buf.can_write()`) before it is switched on."""
    t = b.term(call_bb)
    dest = t["d"][0]
    aliases = {dest: True}          # local -> same polarity as the call result?
    changed = True
    while changed:
        changed = False
        for bb, idx, s in b.iter_assigns():
            if len(s["p"]) != 1 or s["p"][0] in aliases:
                continue
            r = s["r"]
            if r["k"] == "use" and F.op_local(r["o"]) in aliases:
                aliases[s["p"][0]] = aliases[F.op_local(r["o"])]
                changed = True
            elif r["k"] == "un" and r.get("op") == "Not" and F.op_local(r.get("a")) in aliases:
                aliases[s["p"][0]] = not aliases[F.op_local(r["a"])]
                changed = True
    for bb in sorted(b.live_blocks()):
        tt = b.term(bb)
        if tt["k"] == "switch" and F.op_local(tt["o"]) in aliases:
            e = flow.switch_edges(b, bb)
            if e:
                return (bb, e[0], e[1]) if aliases[F.op_local(tt["o"])] else (bb, e[1], e[0])
    return None


def wake2(ctx, facts):
    ctx.rule("WAKE-2: state change => wake, as avoid-reachability from the state-changing call to every return, cutting only the edge on which the documented condition says nobody can be parked")
    # --- State::write
    b = facts.bodies.get(OS + "State::write")
    if b is None:
        ctx.missing("WAKE-2", OS + "State::write")
    else:
        ctx.count(bodies=1)
        acq = [bb for bb, _ in flow.find_calls(b, re.compile(r"circular::Next::<'_>::write$"))]
        rel = _calls_with_field(b, re.compile(r"State::wake$"), "stream_ready")
        cr = [bb for bb, _ in flow.find_calls(b, re.compile(r"CircularBuf::can_read$"))]
        cut = set()
        dom = b.dominators()
        for c in cr:
            sw = _bool_switch_of_call(b, c)
            # only a can_read evaluated after the write counts
            if sw and acq and flow.dominates(dom, acq[0], c):
                cut.add((sw[0], sw[1]))
        _pair(ctx, "WAKE-2", "State::write=>wake(stream_ready)", b, acq, rel, cut,
              "after a write the reader is woken whenever the buffer became readable",
              "a written message can make the buffer readable without waking the parked reader (stream_ready): the stream stalls")
    # --- State::take
    b = facts.bodies.get(OS + "State::take")
    if b is None:
        ctx.missing("WAKE-2", OS + "State::take")
    else:
        ctx.count(bodies=1)
        acq = [bb for bb, _ in flow.find_calls(b, re.compile(r"CircularBuf::take$"))]
        rel = _calls_with_field(b, re.compile(r"State::wake$"), "write_ready")
        cw = [bb for bb, _ in flow.find_calls(b, re.compile(r"CircularBuf::can_write$"))]
        dom = b.dominators()
        cut = set()
        sampled_before = bool(cw) and bool(acq) and all(flow.dominates(dom, c, acq[0]) for c in cw)
        ctx.ob("WAKE-2", "State::take:can_write-sampled-before-take", sampled_before,
               "can_write() is sampled before the bytes are taken" if sampled_before else "can_write() is evaluated after take(): it is then always true and the blocked writer is never woken",
               site_of(b, cw[0]) if cw else site_of(b))
        for c in cw:
            sw = _bool_switch_of_call(b, c)
            if sw:
                cut.add((sw[0], sw[2]))   # buffer was writable before: nobody is parked
        _pair(ctx, "WAKE-2", "State::take=>wake(write_ready)", b, acq, rel, cut,
              "after freeing space in a full buffer the writer is woken",
              "space can be freed in a full buffer without waking the parked writer (write_ready): senders block forever")
    # --- State::close
    b = facts.bodies.get(OS + "State::close")
    if b is None:
        ctx.missing("WAKE-2", OS + "State::close")
    else:
        acq = [bb for bb, _ in flow.find_calls(b, re.compile(r"CircularBuf::close$"))]
        rel = _calls_with_field(b, re.compile(r"State::wake$"), "stream_ready")
        _pair(ctx, "WAKE-2", "State::close=>wake(stream_ready)", b, acq, rel, set(), "close wakes the reader", "close does not wake the reader: the remainder is never flushed")
    # --- Send::poll : ready => waiting.wake(i + 1)
    bs = [x for p, x in facts.bodies.items() if p.startswith("<" + OS + "Send<") and p.endswith("Future>::poll")]
    if not bs:
        ctx.missing("WAKE-2", "Send::poll")
    else:
        b = bs[0]
        ctx.count(bodies=1)
        acq = [bb for bb, _ in flow.find_calls(b, re.compile(r"OrderingSender::next_op$"))]
        rels = flow.find_calls(b, re.compile(r"ordering_sender::Waiting::wake$"))
        good = []
        for bb, t in rels:
            e = flow.strip_casts(flow.expr_of(b, t["args"][1]))
            if e[0] == "bin" and e[1] == "Add" and ("const", 1) in (e[2], e[3]) and "i" in flow.field_names_in(e):
                good.append(bb)
        ctx.ob("WAKE-2", "Send::poll:wake-index", bool(rels) and len(good) == len(rels), "the writer of index i wakes i + 1" if good else "the woken index is not i + 1: the next writer in sequence is never woken", site_of(b, rels[0][0]) if rels else site_of(b))
        cut = set()
        for bb, t in flow.find_calls(b, re.compile(r"Poll::<T>::is_ready$")):
            sw = _bool_switch_of_call(b, bb)
            if sw:
                cut.add((sw[0], sw[1]))
        _pair(ctx, "WAKE-2", "Send::poll:ready=>wake(i+1)", b, acq, good, cut, "a completed write wakes the next index", "a write can complete without waking the writer of the next index")
    # --- take_next : Ready(Some) => waiting.wake(next)
    b = facts.bodies.get(OS + "OrderingSender::take_next")
    if b is None:
        ctx.missing("WAKE-2", "OrderingSender::take_next")
    else:
        ctx.count(bodies=1)
        rels = flow.find_calls(b, re.compile(r"ordering_sender::Waiting::wake$"))
        good = []
        for bb, t in rels:
            e = flow.expr_of(b, t["args"][1])
            if e[0] == "call" and re.search(r"Atomic(\w+|::<\w+>)::load$", e[1]) and "next" in flow.field_names_in(e):
                good.append(bb)
        ctx.ob("WAKE-2", "take_next:wake-index", bool(rels) and len(good) == len(rels), "take_next wakes the writer of `next`" if good else "take_next wakes an index other than the current `next`", site_of(b, rels[0][0]) if rels else site_of(b))
        # every Ready(Some(..)) aggregate is dominated by the wake
        dom = b.dominators()
        n = 0
        for bb, idx, s in b.iter_assigns():
            r = s["r"]
            if r["k"] == "agg" and r.get("adt") == "std::task::Poll" and r["vn"] == "Ready" and flow.expr_of(b, r["ops"][0])[:2] == ("agg", ("std::option::Option", "Some")):
                n += 1
                ok = any(flow.dominates(dom, g, bb) for g in good)
                ctx.ob("WAKE-2", f"take_next:some#{n}=>wake", ok, "bytes are handed out only after the blocked writer was woken" if ok else "bytes are taken from the buffer without waking the writer waiting for `next`", site_of(b, bb, idx))
        ctx.floor("WAKE-2", "take_next Some returns", n, 1)
    # --- OperatingState::poll_next : message Ready => wake_next
    bs = [x for p, x in facts.bodies.items() if p.startswith(UR + "OperatingState::<S, C>::poll_next") and x.kind == "AssocFn"]
    if not bs:
        ctx.missing("WAKE-2", "OperatingState::poll_next")
    else:
        b = bs[0]
        ctx.count(bodies=1)
        dom = b.dominators()
        # a message is consumed where Spare::read / Spare::extend yields Some(m): from that arm every return must pass
        # wake_next - called directly or through a method of OperatingState that calls it on all of its own paths
        from rules.C17 import variant_arms
        wnrx = re.compile(r"OperatingState::<S, C>::wake_next$")
        always = set()
        for p_, x in facts.bodies.items():
            if p_.startswith(UR + "OperatingState::<S, C>::") and x.kind == "AssocFn" and not p_.endswith("::wake_next"):
                w_ = {bb for bb, _ in flow.find_calls(x, wnrx)}
                if w_ and (0 in w_ or not any(x.term(r_)["k"] == "ret" for r_ in x.reachable(0, avoid=frozenset(w_)))):
                    always.add(p_)
        rel = {bb for bb, t in b.calls() if wnrx.search(F.callee(t)[0] or "") or (F.callee(t)[0] or "") in always}
        n = 0
        for sw, pl, arms in variant_arms(b, "std::option::Option", facts):
            src = str(flow.expr_of(b, {"cp": pl}, max_depth=6))
            if not re.search(r"Spare::(read|extend)", src) or "Some" not in arms:
                continue
            n += 1
            reach = b.reachable(arms["Some"], avoid=frozenset(rel))
            bad = [x for x in reach if b.term(x)["k"] == "ret"]
            ctx.ob("WAKE-2", f"OperatingState::poll_next:message#{n}=>wake_next", not bad, "a consumed message advances the cursor and wakes the next receiver" if not bad else "a message is handed out without wake_next(): the cursor does not advance and the receiver of the following record is never woken", site_of(b, sw))
        ctx.floor("WAKE-2", "message-consuming arms in OperatingState::poll_next", n, 2)


def guards(ctx, facts):
    ctx.rule("GUARD-next_op: Pending only on the is_ok() edge of Waiting::add; fetch_add(1) only on the is_ready() edge of the operation")
    b = facts.bodies.get(OS + "OrderingSender::next_op")
    if b is None:
        ctx.missing("GUARD-next_op", OS + "OrderingSender::next_op")
    else:
        ctx.count(bodies=1)
        dom = b.dominators()
        adds = flow.find_calls(b, re.compile(r"ordering_sender::Waiting::add$"))
        isok = flow.find_calls(b, re.compile(r"Result::<T, E>::is_ok$"))
        ok = False
        detail = "no `waiting.add(..).is_ok()` test"
        pend = wake.pending_sites(b)
        if adds and isok and pend:
            sw = _bool_switch_of_call(b, isok[0][0])
            e = flow.expr_of(b, isok[0][1]["args"][0])
            from_add = e[0] == "call" and re.search(r"Waiting::add$", e[1]) is not None
            if sw and from_add:
                ok = all(flow.dominates(dom, sw[2], pb) and not flow.dominates(dom, sw[1], pb) for pb, _ in pend)
                detail = "Pending is returned only when the waker was accepted" if ok else "Pending is returned although Waiting::add refused the waker (woken_at moved on): lost wake-up"
        ctx.ob("GUARD-next_op", "pending-on-is_ok", ok, detail, site_of(b, pend[0][0]) if pend else site_of(b))
        # the add receives the freshly loaded `next` as `current`
        if adds:
            e = flow.expr_of(b, adds[0][1]["args"][1])
            okc = e[0] == "call" and re.search(r"Atomic(\w+|::<\w+>)::load$", e[1]) is not None
            ctx.ob("GUARD-next_op", "add-uses-loaded-next", okc, "Waiting::add is given the value of `next` loaded in this iteration", site_of(b, adds[0][0]))
        fa = flow.find_calls(b, re.compile(r"Atomic(\w+|::<\w+>)::fetch_add$"))
        ir = flow.find_calls(b, re.compile(r"Poll::<T>::is_ready$"))
        ok2, d2 = False, "no fetch_add under is_ready()"
        if fa and ir:
            sw = _bool_switch_of_call(b, ir[0][0])
            one = F.const_int(fa[0][1]["args"][1]) == 1
            if sw:
                ok2 = one and all(flow.dominates(dom, sw[2], x) for x, _ in fa)
                d2 = "`next` advances by exactly one, only after a ready operation" if ok2 else "`next` is advanced on a path where the operation did not complete (or not by 1)"
        ctx.ob("GUARD-next_op", "advance-on-ready", ok2, d2, site_of(b, fa[0][0]) if fa else site_of(b))
    ctx.rule("GUARD-add: WaitingShard::add returns Err exactly on current < woken_at")
    b = facts.bodies.get(OS + "WaitingShard::add")
    if b is None:
        ctx.missing("GUARD-add", OS + "WaitingShard::add")
    else:
        ctx.count(bodies=1)
        found = False
        for bb in sorted(b.live_blocks()):
            t = b.term(bb)
            if t["k"] != "switch":
                continue
            e = flow.expr_of(b, t["o"])
            if e[0] == "bin" and e[1] in ("Lt", "Gt", "Le", "Ge"):
                names = (flow.field_names_in(e[2]), flow.field_names_in(e[3]))
                lhs_cur = e[2][:2] == ("arg", 2)
                if e[1] == "Lt" and lhs_cur and "woken_at" in names[1]:
                    found = True
                    ed = flow.switch_edges(b, bb)
                    # the true edge must lead to an Err aggregate before any waker insertion
                    reach_true = b.reachable(ed[1]) if ed else set()
                    errs = [x for x, i, s in b.iter_assigns() if s["r"]["k"] == "agg" and s["r"].get("vn") == "Err" and x in reach_true]
                    ins_false = b.reachable(ed[0]) if ed else set()
                    ok = bool(errs) and not any(x in (reach_true - ins_false) for x, _ in flow.find_calls(b, re.compile(r"VecDeque::<T, A>::insert$")))
                    ctx.ob("GUARD-add", "refuse-when-stale", ok, "a waker for an index already woken past is refused" if ok else "the stale-registration test does not refuse the waker", site_of(b, bb))
                elif "woken_at" in names[0] | names[1]:
                    found = True
                    ctx.ob("GUARD-add", "refuse-when-stale", False, f"comparison against woken_at is `{e[1]}` on {e[2][:3]} / {e[3][:3]}, expected `current < woken_at`", site_of(b, bb))
        if not found:
            ctx.missing("GUARD-add", "comparison current < woken_at in WaitingShard::add")



def _equals_on_grid(e, grid, ref):
    """does expression e evaluate to ref(values) for every point of the grid {symbol: range}?"""
    import itertools
    from rules.C13 import ieval, NoEval
    keys = list(grid)
    try:
        for vals in itertools.product(*[grid[k] for k in keys]):
            env = dict(zip(keys, vals))
            if ieval(e, env) != ref(env):
                return False
    except NoEval:
        return False
    return True


def cursors(ctx, facts):
    ctx.rule("WHO-cursor: each cursor field is written only by its owner operation and only with the documented expression (read/write: inc(cursor, _); closed: true in close; woken_at: max(woken_at, i); OperatingState.next: next + 1 in wake_next; OrderingSender.next: fetch_add(_, 1) in next_op)")
    table = [
        ("read", r"CircularBuf", {CB + "take"}, lambda e: e[0] == "call" and e[1].endswith("CircularBuf::inc") and "read" in flow.field_names_in(e[2][1])),
        ("write", r"CircularBuf|circular::Next<", {M + "circular::Next::<'_>::write"}, lambda e: e[0] == "call" and e[1].endswith("CircularBuf::inc") and "write" in flow.field_names_in(e[2][1]) and "write_size" in flow.field_names_in(e[2][2])),
        ("closed", r"CircularBuf", {CB + "close"}, lambda e: e == ("const", 1)),
        # evaluated, not matched: any expression equal to max(woken_at, i) / next + 1 on a grid is the documented update
        ("woken_at", r"WaitingShard", {OS + "WaitingShard::wake"}, lambda e: _equals_on_grid(e, {("arg", 1, "woken_at"): range(0, 6), ("arg", 2): range(0, 6)}, lambda v: max(v[("arg", 1, "woken_at")], v[("arg", 2)]))),
        ("next", r"OperatingState<", {UR + "OperatingState::<S, C>::wake_next"}, lambda e: _equals_on_grid(e, {("arg", 1, "next"): range(0, 9)}, lambda v: v[("arg", 1, "next")] + 1)),
    ]
    for field, owner, allowed, shape in table:
        ws = flow.field_writes(facts, field, owner)
        ctx.floor("WHO-cursor", f"writes to {field}", len(ws), 1)
        for n, (b, bb, idx, kind, s) in enumerate(ws):
            inst = f"{field}@{b.root}#{n}"
            if b.root not in allowed:
                ctx.ob("WHO-cursor", inst, False, f"field `{field}` is written outside its owner operation {sorted(F.short(a, 2) for a in allowed)}", site_of(b, bb, idx))
                continue
            if kind != "assign" or s["r"]["k"] != "use":
                e = flow.expr_of(b, {"cp": s["p"]}) if kind == "assign" else ("borrow",)
                if kind == "assign" and s["r"]["k"] == "bin":
                    e = ("bin", s["r"]["op"].replace("WithOverflow", ""), flow.expr_of(b, s["r"]["a"]), flow.expr_of(b, s["r"]["b"]))
                    ctx.ob("WHO-cursor", inst, shape(e), f"{field} := {str(e)[:160]}", site_of(b, bb, idx))
                else:
                    ctx.ob("WHO-cursor", inst, False, f"field `{field}` is mutably borrowed / written in an unrecognised way", site_of(b, bb, idx))
                continue
            e = flow.strip_casts(flow.expr_of(b, s["r"]["o"]))
            ok = False
            try:
                ok = bool(shape(e))
            except (IndexError, TypeError):
                ok = False
            ctx.ob("WHO-cursor", inst, ok, f"{field} := {str(e)[:200]}" if ok else f"{field} is assigned {str(e)[:200]}, not the documented cursor update", site_of(b, bb, idx))
    # arithmetic of the helpers, by evaluation (RING evaluates inc / len / range built on them)
    from rules.C13 import ieval, NoEval
    CAP = ("call", "std::vec::Vec::<T, A>::len", (("arg", 1, "data"),))
    for name, ref in (("wrap", lambda v, N: v % (2 * N)), ("mask", lambda v, N: v % N)):
        b = facts.bodies.get(CB + name)
        if b is None:
            ctx.missing("WHO-cursor", CB + name)
            continue
        e = flow.inline_calls(facts, flow.expr_of(b, {"cp": [0]}), only=r"circular::CircularBuf::")
        bad = None
        try:
            for N in range(1, 11):
                for v in range(4 * N + 1):
                    got = ieval(e, {CAP: N, ("arg", 2): v})
                    if got != ref(v, N) and bad is None:
                        bad = f"capacity {N}: {name}({v}) = {got}, expected {ref(v, N)}"
        except NoEval as ex:
            bad = f"cannot evaluate {name} ({ex})"
        ctx.ob("WHO-cursor", f"shape:{name}", bad is None, f"{name}(v) = v mod {'2N' if name == 'wrap' else 'N'} (evaluated for N <= 10)" if bad is None else bad, site_of(b))
    # OrderingSender.next (atomic)
    n = 0
    for b in facts.non_test_bodies():
        if not b.root.startswith(OS):
            continue
        for bb, t in b.calls():
            fn = F.callee(t)[0] or ""
            m = re.search(r"Atomic(?:\w+|::<\w+>)::(\w+)$", fn)
            if not m or not t["args"]:
                continue
            if "next" not in flow.field_names_in(flow.expr_of(b, t["args"][0])):
                continue
            op = m.group(1)
            if op == "load":
                continue
            n += 1
            ok = op == "fetch_add" and b.root == OS + "OrderingSender::next_op"
            ctx.ob("WHO-cursor", f"atomic-next:{op}@{b.root}", ok, "`next` advances only by fetch_add in next_op" if ok else f"`next` is modified by {op} in {b.root}", site_of(b, bb))
    ctx.floor("WHO-cursor", "atomic writes to OrderingSender.next", n, 1)


def latest_waker(ctx, facts):
    ctx.rule("SLOT-latest: every path through State::save_waker writes cx.waker() into the slot (Clone::clone_from(slot, cx.waker()) / Option::replace|insert(slot, cx.waker().clone()) / `*slot = Some(..)`), or passes the true edge of will_wake; State::wake empties the slot with take() and calls wake on what it took")
    b = facts.bodies.get(OS + "State::save_waker")
    if b is None:
        ctx.missing("SLOT-latest", "State::save_waker")
    else:
        ctx.count(bodies=1)
        writes = set()
        for bb, t in b.calls():
            fn = F.callee(t)[0] or ""
            args = [str(flow.expr_of(b, a, max_depth=20)) for a in t["args"]]
            from_cx = any(re.search(r"Context::<'\w+>::waker|Context::waker", a) and "('arg', 2)" in a for a in args[1:])
            into_slot = bool(args) and "('arg', 1" in args[0]
            if from_cx and into_slot and re.search(r"(Clone::clone_from|Option::<T>::(replace|insert)|mem::replace)$", fn):
                writes.add(bb)
        for bb, idx, st in b.iter_assigns():
            if st["p"][0] == 1 and "*" in st["p"][1:] and st["r"]["k"] in ("use", "agg"):
                e = str(flow.expr_of(b, st["r"]["o"], max_depth=20)) if st["r"]["k"] == "use" else str([flow.expr_of(b, o, max_depth=20) for o in st["r"].get("ops", [])])
                if re.search(r"Context::<'\w+>::waker|Context::waker", e):
                    writes.add(bb)
        same = set()
        for tgt, f in flow.edge_guards(b):
            if f[0] == "true" and f[1][0] == "call" and f[1][1].endswith("Waker::will_wake"):
                same.add(tgt)
        rets = [bb for bb in b.live_blocks() if b.term(bb)["k"] == "ret"]
        reach = b.reachable(0, avoid=frozenset(writes | same))
        stale = [r for r in rets if r in reach]
        ok = bool(writes) and not stale
        ctx.ob("SLOT-latest", "save_waker:stores-current-waker-on-every-path", ok, "the slot always ends up holding the waker of this poll" if ok else "State::save_waker can return without storing the current context's waker (e.g. it keeps an already stored one): after the future is polled from another task/context, the wake-up goes to the stale waker and the real waiter sleeps forever", site_of(b, stale[0]) if stale else site_of(b))
    w = facts.bodies.get(OS + "State::wake")
    if w is None:
        ctx.missing("SLOT-latest", "State::wake")
    else:
        ctx.count(bodies=1)
        tk = [(bb, t) for bb, t in w.calls() if (F.callee(t)[0] or "").endswith("Option::<T>::take") and "('arg', 1" in str(flow.expr_of(w, t["args"][0]))]
        wk = [(bb, t) for bb, t in w.calls() if re.search(r"Waker::wake(_by_ref)?$", F.callee(t)[0] or "")]
        ok = bool(tk) and bool(wk) and all("Option::<T>::take" in str(flow.expr_of(w, t["args"][0], max_depth=20)) for bb, t in wk)
        ctx.ob("SLOT-latest", "wake:takes-then-wakes", ok, "wake() empties the slot and wakes the waker it took" if ok else "State::wake does not take the stored waker out of the slot and wake exactly that one", site_of(w))
    # the receiver side: add_waker(i, waker) must keep `waker` on every path that returns
    a = facts.bodies.get(UR + "OperatingState::<S, C>::add_waker")
    if a is None:
        ctx.missing("SLOT-latest", "OperatingState::add_waker")
        return
    ctx.count(bodies=1)
    writes = set()
    for bb, t in a.calls():
        fn = F.callee(t)[0] or ""
        args = [str(flow.expr_of(a, x, max_depth=20)) for x in t["args"]]
        if any("('arg', 3)" in x for x in args[1:]) and re.search(r"(Clone::clone_from|Option::<T>::(replace|insert)|Vec::<T, A>::push|VecDeque::<T, A>::push_back)$", fn):
            writes.add(bb)
    for bb, idx, st in a.iter_assigns():
        if st["p"][0] == 1 and len(st["p"]) > 1 and st["r"]["k"] in ("use", "agg"):
            e = str(flow.expr_of(a, st["r"]["o"], max_depth=20)) if st["r"]["k"] == "use" else str([flow.expr_of(a, o, max_depth=20) for o in st["r"].get("ops", [])])
            if "('arg', 3)" in e:
                writes.add(bb)
        # `self.wakers[index] = Some(waker.clone())` goes through IndexMut: the assigned place is (*_x) of an index_mut result
        if st["r"]["k"] in ("use", "agg") and len(st["p"]) > 1 and st["p"][1] == "*":
            e = str(flow.expr_of(a, st["r"]["o"], max_depth=20)) if st["r"]["k"] == "use" else str([flow.expr_of(a, o, max_depth=20) for o in st["r"].get("ops", [])])
            if "('arg', 3)" in e:
                writes.add(bb)
    rets = [bb for bb in a.live_blocks() if a.term(bb)["k"] == "ret"]
    reach = a.reachable(0, avoid=frozenset(writes))
    stale = [r for r in rets if r in reach]
    ok = len(writes) >= 2 and not stale
    ctx.ob("SLOT-latest", "add_waker:stores-given-waker-on-every-path", ok, "the waker handed in is kept (ring slot, overwriting an older one, or overflow list)" if ok else "OperatingState::add_waker can return without keeping the waker it was given: that receiver is never woken when its record arrives", site_of(a, stale[0]) if stale else site_of(a))


# ---------------------------------------------------------------------------------------------
def pieces(facts, b, only):
    """[(guard facts dominating the definition, expression)] for every definition of the return place; helper calls
    matching `only` are inlined"""
    dom = b.dominators()
    eg = flow.edge_guards(b)
    out = []
    for bb, idx, d in b.defs().get(0, []):
        if idx == "t":
            if d["k"] != "call":
                continue
            e = ("call", F.callee(d)[0], tuple(flow.expr_of(b, a, max_depth=30) for a in d["args"]))
        elif d["k"] == "use":
            e = flow.expr_of(b, d["o"], max_depth=30)
        elif d["k"] == "bin":
            e = ("bin", d["op"].replace("WithOverflow", ""), flow.expr_of(b, d["a"], max_depth=30), flow.expr_of(b, d["b"], max_depth=30))
        else:
            e = flow._expr_place(b, [0], 0, 30)
        gs = [f for tgt, f in eg if flow.dominates(dom, tgt, bb)]
        gs += [f for tgt, f in _checked_sub_facts(b) if flow.dominates(dom, tgt, bb)]
        out.append((bb, gs, flow.inline_calls(facts, e, only=only)))
    return out


def _checked_sub_facts(b):
    """[(target, fact)] for `match a.checked_sub(b) { Some(d) => .., None => .. }`: the Some arm means a >= b, the None arm a < b"""
    out = []
    for bb in b.live_blocks():
        t = b.term(bb)
        if t["k"] != "switch":
            continue
        e = flow.expr_of(b, t["o"], max_depth=8)
        if e[0] != "disc":
            continue
        v = flow.strip_casts(e[1])
        if not (v[0] == "call" and re.search(r"::checked_sub$", v[1]) and len(v[2]) == 2):
            continue
        a_, b_ = v[2]
        listed = {int(x): tgt for x, tgt in t["ts"]}
        some = listed.get(1, t["else"] if 0 in listed else None)
        none = listed.get(0, t["else"] if 1 in listed else None)
        if some is not None and none is not None and some != none:
            out.append((some, ("Ge", a_, b_)))
            out.append((none, ("Lt", a_, b_)))
    return out


def ring(ctx, facts):
    """Index arithmetic of the circular send buffer, evaluated over every small configuration."""
    from rules.C13 import ieval, NoEval
    ctx.rule("RING: with capacity N and cursors in [0, 2N): len() equals (write - read) mod 2N on every state with at most N bytes stored (both branches, chosen by their own guard), remaining() = N - len(), inc(v, d) = (v + d) mod 2N, and range(p, u) designates exactly u cells of [0, N) starting at p mod N (wrapping) - evaluated from the extracted expressions (helper calls mask / wrap / capacity inlined) for N = 1..10 and every cursor pair")
    P = "helpers::buffers::circular::CircularBuf::"
    need = ("len", "remaining", "inc", "range")
    if not all((P + n) in facts.bodies for n in need):
        return ctx.missing("RING", "CircularBuf::" + "/".join(need))
    ctx.count(bodies=len(need) + 3)
    only = r"circular::CircularBuf::"
    CAP = ("call", "std::vec::Vec::<T, A>::len", (("arg", 1, "data"),))
    W, R = ("arg", 1, "write"), ("arg", 1, "read")
    OPS = {"Ge": lambda a, c: a >= c, "Gt": lambda a, c: a > c, "Le": lambda a, c: a <= c, "Lt": lambda a, c: a < c, "Eq": lambda a, c: a == c, "Ne": lambda a, c: a != c}

    def value(ps, env):
        """value of the piece whose guards hold; None if none or several apply"""
        hit = []
        for bb, gs, e in ps:
            ok = True
            for op, l, r in gs:
                if op not in OPS:
                    raise NoEval(f"guard {op}")
                if not OPS[op](ieval(l, env), ieval(r, env)):
                    ok = False
            if ok:
                hit.append(ieval(e, env))
        return hit[0] if len(hit) == 1 else None

    # ---- len / remaining
    bad = None
    n = 0
    try:
        lp = pieces(facts, facts.bodies[P + "len"], only)
        rp = pieces(facts, facts.bodies[P + "remaining"], only)
        # remaining() calls len(): inline by evaluating len first
        for N in range(1, 11):
            for r in range(2 * N):
                for w in range(2 * N):
                    d = (w - r) % (2 * N)
                    if d > N:
                        continue
                    env = {CAP: N, W: w, R: r}
                    v = value(lp, env)
                    n += 1
                    if v != d and bad is None:
                        bad = f"capacity {N}, read {r}, write {w}: len() = {v}, stored bytes = {d}"
                    env2 = dict(env)
                    env2[("call", P + "len", (("arg", 1),))] = d
                    rv = value(rp, env2)
                    if rv != N - d and bad is None:
                        bad = f"capacity {N}, read {r}, write {w}: remaining() = {rv}, free bytes = {N - d}"
    except NoEval as ex:
        bad = f"cannot evaluate ({ex})"
    ctx.ob("RING", "len-and-remaining", bad is None, f"len() = (write - read) mod 2N and remaining() = N - len() on all {n} states with N <= 10" if bad is None else bad, site_of(facts.bodies[P + "len"]))
    # ---- inc
    bad = None
    try:
        ip = pieces(facts, facts.bodies[P + "inc"], only)
        for N in range(1, 11):
            for v0 in range(2 * N):
                for dl in range(N + 1):
                    v = value(ip, {CAP: N, ("arg", 2): v0, ("arg", 3): dl})
                    if v != (v0 + dl) % (2 * N) and bad is None:
                        bad = f"capacity {N}: inc({v0}, {dl}) = {v}, expected {(v0 + dl) % (2 * N)}"
    except NoEval as ex:
        bad = f"cannot evaluate ({ex})"
    ctx.ob("RING", "inc-wraps-at-2N", bad is None, "inc(v, d) = (v + d) mod 2N" if bad is None else bad, site_of(facts.bodies[P + "inc"]))
    # ---- range
    bad = None
    try:
        rb = facts.bodies[P + "range"]
        ps = pieces(facts, rb, only)
        if len(ps) != 1 or ps[0][2][0] != "call" or not ps[0][2][1].endswith("RangeInclusive::<Idx>::new"):
            raise NoEval("range() is not a single RangeInclusive::new(start, end)")
        se, ee = ps[0][2][2]
        for N in range(1, 11):
            for p in range(2 * N):
                for u in range(1, N + 1):
                    env = {CAP: N, ("arg", 2): p, ("arg", 3): u}
                    s, e = ieval(se, env), ieval(ee, env)
                    cells = list(range(s, e + 1)) if e >= s else list(range(s, N)) + list(range(0, e + 1))
                    want = [(p + i) % N for i in range(u)]
                    if cells != want and bad is None:
                        bad = f"capacity {N}: range({p}, {u}) = {s}..={e} designates cells {cells}, expected {want}"
    except NoEval as ex:
        bad = f"cannot evaluate ({ex})"
    ctx.ob("RING", "range-covers-unit-cells", bad is None, "range(p, u) = the u cells p mod N, .., (p + u - 1) mod N" if bad is None else bad, site_of(facts.bodies[P + "range"]))


def ring_ops(ctx, facts):
    ctx.rule("RING-ops: take() copies range(read, d) (both arms of the wrap test, the wrapped arm as data[start..] then data[..=end]) and advances read by the same d = min(read_size, len()); next()/Next::write write range(write, write_size) and advance write by write_size; the wrapped arm is taken exactly when end < start")
    P = "helpers::buffers::circular::"
    tb, nb, wb = facts.bodies.get(P + "CircularBuf::take"), facts.bodies.get(P + "CircularBuf::next"), facts.bodies.get(P + "Next::<'_>::write")
    if None in (tb, nb, wb):
        return ctx.missing("RING-ops", "CircularBuf::take / next / Next::write")
    ctx.count(bodies=3)
    # take: decided by evaluation, whatever the syntactic form - (1) the amount d given to range() and inc() is
    # min(read_size, len()) on a grid; (2) with (start, end) = the bounds of range(read, d), the cells appended to the
    # result (every extend_from_slice whose dominating guards hold, in program order, each a slice of `data`) are
    # start, start+1, .. wrapping at N .. end, for every N <= 6 and every (start, end); (3) read := inc(read, d)
    from rules.C13 import ieval, guard_holds, NoEval
    rg = flow.find_calls(tb, re.compile(r"CircularBuf::range$"))
    ic = flow.find_calls(tb, re.compile(r"CircularBuf::inc$"))
    ok = len(rg) == 1 and len(ic) == 1
    why = "take() does not compute one range and one cursor increment"
    if ok:
        ra = [flow.expr_of(tb, a, max_depth=20) for a in rg[0][1]["args"]]
        ia = [flow.expr_of(tb, a, max_depth=20) for a in ic[0][1]["args"]]
        d = ra[2]
        RS, LN = ("arg", 1, "read_size"), ("call", P + "CircularBuf::len", (("arg", 1),))
        okd = _equals_on_grid(d, {RS: range(1, 6), LN: range(0, 8)}, lambda v: min(v[RS], v[LN]))
        oks = ra[1] == ("arg", 1, "read") and ia[1] == ("arg", 1, "read") and ia[2] == d
        wr = [s_ for bb, idx, s_ in tb.iter_assigns() if any(isinstance(e, list) and e[0] == "f" and e[2] == "read" for e in s_["p"][1:])]
        okw = len(wr) == 1 and "o" in wr[0]["r"] and flow.expr_of(tb, wr[0]["r"]["o"], max_depth=20)[:2] == ("call", P + "CircularBuf::inc")
        ok = okd and oks and okw
        why = "copies range(read, d), then read = inc(read, d), d = min(read_size, len())" if ok else ("the number of bytes taken is not min(read_size, len())" if not okd else ("the bytes copied and the cursor advance disagree (range(read, d) vs inc(read, d'))" if not oks else "the read cursor is not set to inc(read, d)"))
    ctx.ob("RING-ops", "take:copies-what-it-consumes", ok, why, site_of(tb, rg[0][0]) if rg else site_of(tb))
    bad = None
    if len(rg) == 1:
        RC = ("call", P + "CircularBuf::range", tuple(flow.expr_of(tb, a, max_depth=20) for a in rg[0][1]["args"]))
        dom = tb.dominators()
        eg = flow.edge_guards(tb)
        ext = sorted(flow.find_calls(tb, re.compile(r"Vec::<T, A>::extend_from_slice$")), key=lambda x: x[0])
        # program order: a call that dominates another comes first
        ext.sort(key=lambda x: sum(1 for y in ext if flow.dominates(dom, y[0], x[0])))

        def bound_nodes(e, out):
            """sub-expressions that denote the start / the end of the range() result"""
            if not isinstance(e, tuple):
                return
            x = flow.strip_casts(e)
            if x[0] == "call" and x[1].endswith("RangeInclusive::<Idx>::start") and flow.strip_casts(x[2][0]) == RC:
                out[e] = "s"
            elif x[0] == "call" and x[1].endswith("RangeInclusive::<Idx>::end") and flow.strip_casts(x[2][0]) == RC:
                out[e] = "e"
            elif x[0] == "proj" and x[1][0] == "call" and x[1][1].endswith("RangeInclusive::<Idx>::into_inner") and flow.strip_casts(x[1][2][0]) == RC and x[2:] in ((0,), (1,)):
                out[e] = "s" if x[2] == 0 else "e"
            for y in e[1:]:
                if isinstance(y, tuple):
                    if y and isinstance(y[0], str):
                        bound_nodes(y, out)
                    else:
                        for z in y:
                            bound_nodes(z, out)

        nodes = {}
        slices = []
        for bb, t in ext:
            se = flow.expr_of(tb, t["args"][1], max_depth=14)
            bound_nodes(se, nodes)
            slices.append((bb, se))
        for tgt, f in eg:
            bound_nodes(("t", f[1], f[2] if f[2] is not None else ("const", 0)), nodes)
        try:
            if not slices:
                raise NoEval("take() appends nothing to its result")
            for N in range(1, 7):
                for st in range(N):
                    for en in range(N):
                        env = {k: (st if v == "s" else en) for k, v in nodes.items()}
                        cells = []
                        for bb, se in slices:
                            if not all(guard_holds(f, env) for tgt, f in eg if flow.dominates(dom, tgt, bb) and ("RangeInclusive" in str(f) or any(str(k) in str(f) for k in nodes))):
                                continue
                            x = flow.strip_casts(se)
                            # a slice that went through a tuple binding: `let (head, tail) = (&data[a..], &data[..=b])`
                            for _ in range(3):
                                if x[0] == "proj" and isinstance(x[1], tuple) and x[1][0] == "agg" and x[1][1] == "tuple" and len(x) == 3 and isinstance(x[2], int) and x[2] < len(x[1][2]):
                                    x = flow.strip_casts(x[1][2][x[2]])
                                else:
                                    break
                            if not (x[0] == "call" and re.search(r"Index(Mut)?::index(_mut)?$", x[1]) and flow.strip_casts(x[2][0]) == ("arg", 1, "data")):
                                raise NoEval("a slice appended by take() is not a slice of self.data")
                            r = flow.strip_casts(x[2][1])
                            if r == RC:
                                lo, hi = st, en
                            elif r[0] == "agg" and isinstance(r[1], tuple) and r[1][1] == "RangeFrom":
                                lo, hi = ieval(r[2][0], env), N - 1
                            elif r[0] == "agg" and isinstance(r[1], tuple) and r[1][1] == "RangeToInclusive":
                                lo, hi = 0, ieval(r[2][0], env)
                            elif r[0] == "agg" and isinstance(r[1], tuple) and r[1][1] == "RangeTo":
                                lo, hi = 0, ieval(r[2][0], env) - 1
                            elif r[0] == "agg" and isinstance(r[1], tuple) and r[1][1] == "Range":
                                lo, hi = ieval(r[2][0], env), ieval(r[2][1], env) - 1
                            elif r[0] == "call" and r[1].endswith("RangeInclusive::<Idx>::new"):
                                lo, hi = ieval(r[2][0], env), ieval(r[2][1], env)
                            else:
                                raise NoEval("slice bounds " + str(r)[:50])
                            if lo > hi + 1 or hi >= N or lo < 0:
                                raise NoEval(f"capacity {N}, range {st}..={en}: slice data[{lo}..={hi}] is out of order / out of bounds (panics)")
                            cells += list(range(lo, hi + 1))
                        want = [(st + k) % N for k in range((en - st) % N + 1)]
                        if cells != want and bad is None:
                            bad = f"capacity {N}: the read range {st}..={en} {'wraps and ' if en < st else ''}designates cells {want} but take() copies cells {cells}: bytes are reordered, lost or duplicated at the wrap point"
        except NoEval as ex:
            bad = f"cannot evaluate the cells copied by take() ({ex})"
    else:
        bad = "take() does not compute one range"
    ctx.ob("RING-ops", "take:wrap-arms", bad is None, "for every capacity <= 6 and every range, take() copies exactly the cells of the range in order (split at the wrap point)" if bad is None else bad, site_of(tb, rg[0][0]) if rg else site_of(tb))
    # write side
    rg = flow.find_calls(nb, re.compile(r"CircularBuf::range$"))
    ic = flow.find_calls(wb, re.compile(r"CircularBuf::inc$"))
    okw = False
    if len(rg) == 1 and len(ic) == 1:
        ra = [flow.expr_of(nb, a, max_depth=12) for a in rg[0][1]["args"]]
        ia = [flow.expr_of(wb, a, max_depth=12) for a in ic[0][1]["args"]]
        ix = flow.find_calls(wb, re.compile(r"IndexMut::index_mut$"))
        okix = len(ix) == 1 and flow.expr_of(wb, ix[0][1]["args"][1], max_depth=8) == ("arg", 1, "range")
        okw = ra[1:] == [("arg", 1, "write"), ("arg", 1, "write_size")] and ia[1:] == [("arg", 1, "buf", "write"), ("arg", 1, "buf", "write_size")] and okix
    ctx.ob("RING-ops", "write:fills-what-it-advances", okw, "writes range(write, write_size), then write = inc(write, write_size)" if okw else "the cells written and the advance of the write cursor disagree", site_of(wb, ic[0][0]) if ic else site_of(wb))


# ---------------------------------------------------------------------------------------------
def waker_store(ctx, facts):
    """WaitingShard keeps its wakers sorted by index; wake() relies on that (take_while(wi.i <= i)).  A waker that is
    filed out of order or under another shard than the one wake(i) looks in is never woken."""
    ctx.rule("SORTED-wakers: Waiting::add and Waiting::wake pick the shard with the same function of their own index i; WaitingShard::add scans the deque from the back comparing wakers[j].i with i and either replaces at j (Equal), inserts at j + 1 (Less) or, when every entry is greater, inserts at the front; nothing else writes the deque in add")
    P = "helpers::buffers::ordering_sender::"
    wa, ww, sh, sa = (facts.bodies.get(P + n) for n in ("Waiting::add", "Waiting::wake", "Waiting::shard", "WaitingShard::add"))
    if None in (wa, ww, sh, sa):
        return ctx.missing("SORTED-wakers", "Waiting::add / wake / shard, WaitingShard::add")
    ctx.count(bodies=4)
    def shard_arg(b, callee, iarg):
        c = flow.find_calls(b, re.compile(r"Waiting::shard$"))
        d = flow.find_calls(b, re.compile(callee))
        return len(c) == 1 and len(d) == 1 and flow.expr_of(b, c[0][1]["args"][1]) == ("arg", iarg) and ("arg", iarg) in [flow.expr_of(b, a) for a in d[0][1]["args"]] and "Waiting::shard" in str(flow.expr_of(b, d[0][1]["args"][0], max_depth=6))
    ok1 = shard_arg(wa, r"WaitingShard::add$", 3) and shard_arg(ww, r"WaitingShard::wake$", 2)
    ctx.ob("SORTED-wakers", "same-shard-for-add-and-wake", ok1, "add(current, i, w) and wake(i) both go to shard(i)" if ok1 else "a waker for index i is stored in a shard that wake(i) does not look in (or the other way round): the writer is never woken", site_of(wa))
    # the shard index is a function of i only
    e = None
    for bb, idx, s in sh.iter_assigns():
        r = s["r"]
        if r["k"] == "bin" and r["op"] == "Rem":
            e = flow.expr_of(sh, r["a"], max_depth=6)
    if e is None:
        # the arithmetic may live in a small associated function (`Self::shard_index(i)`): the same check on its body,
        # given that it is called with the send index
        for bb, t in sh.calls():
            hb = facts.bodies.get(F.callee(t)[0] or "")
            if hb is not None and (F.callee(t)[0] or "").startswith(P + "Waiting::") and len(t["args"]) == 1 and flow.expr_of(sh, t["args"][0], max_depth=4) == ("arg", 2):
                for bb2, idx2, s2 in hb.iter_assigns():
                    r2 = s2["r"]
                    if r2["k"] == "bin" and r2["op"] == "Rem":
                        e1 = flow.expr_of(hb, r2["a"], max_depth=6)
                        if ("arg", 1) in malsec_leaves(e1) and not [x for x in malsec_leaves(e1) if x[0] == "arg" and x[1] != 1]:
                            e = ("bin", "Shr", ("arg", 2), ("const", 0))      # a pure function of the send index
    ok2 = e is not None and ("arg", 2) in malsec_leaves(e) and not [x for x in malsec_leaves(e) if x[:2] == ("arg", 1)]
    ctx.ob("SORTED-wakers", "shard-depends-on-index-only", ok2, "shard index = f(i) % SHARDS" if ok2 else "the shard index is not a pure function of the send index", site_of(sh))
    ins = flow.find_calls(sa, re.compile(r"VecDeque::<T, A>::insert$"))
    cmpc = flow.find_calls(sa, re.compile(r"Ord::cmp$"))
    writers = [F.callee(t)[0].split("::")[-1] for bb, t in sa.calls() if re.search(r"VecDeque::<T, A>::(push_back|push_front|insert|remove|pop_front|pop_back|clear|truncate|drain|swap|retain)$", F.callee(t)[0] or "")]
    ok3, why3 = False, "insertion shape not recognised"
    if len(cmpc) == 1 and len(ins) == 2 and writers == ["insert", "insert"]:
        c0, c1 = (flow.expr_of(sa, a, max_depth=8) for a in cmpc[0][1]["args"])
        cmp_ok = "wakers" in str(c0) and c0[-1] == "i" and c1 == ("arg", 3)
        from rules.C17 import variant_arms
        dom = sa.dominators()
        sw = flow.next_switch(sa, cmpc[0][1]["t"])
        arms = {}
        if sw is not None:
            t = sa.term(sw)
            names = {"-1": "Less", "255": "Less", "0": "Equal", "1": "Greater"}
            for v, tgt in t["ts"]:
                arms[names.get(str(v), str(v))] = tgt
            if t.get("else") is not None:
                rest = [n for n in ("Less", "Equal", "Greater") if n not in arms]
                if len(rest) == 1:
                    arms[rest[0]] = t["else"]
        pos = {}
        for bb, t in ins:
            idx = flow.expr_of(sa, t["args"][1], max_depth=8)
            where = [n for n, tgt in arms.items() if flow.dominates(dom, tgt, bb)]
            pos[bb] = (idx, where)
        less = [v for v in pos.values() if v[1] == ["Less"]]
        front = [v for v in pos.values() if not v[1]]
        less_ok = len(less) == 1 and less[0][0][0] == "bin" and less[0][0][1] == "Add" and ("const", 1) in less[0][0][2:] and "Iterator::next" in str(less[0][0])
        front_ok = len(front) == 1 and front[0][0] == ("const", 0)
        eq_ok = "Equal" in arms and any(flow.dominates(dom, arms["Equal"], bb) for bb, t in flow.find_calls(sa, re.compile(r"IndexMut::index_mut$")))
        ok3 = cmp_ok and less_ok and front_ok and eq_ok
        why3 = "Equal: replace at j; Less: insert(j + 1); all greater: insert(0)" if ok3 else ("the comparison is not wakers[j].i against i" if not cmp_ok else ("an entry smaller than i is not followed by the new waker at j + 1" if not less_ok else ("when every stored index is greater the new waker is not inserted at the front: the deque is no longer sorted and wake() stops searching before it finds the waker" if not front_ok else "an equal index is not replaced in place")))
    elif set(writers) <= {"insert"} and ins:
        # another way of writing the search (rposition / position / partition_point / binary_search ..): decide the
        # structural core only - every insert position is 0 or (found position + 1), the position comes from a scan of
        # the deque, and the scan compares a stored entry's index with the index being added
        flow_old = flow.CLOSURE_DEFS
        flow.CLOSURE_DEFS = True
        try:
            pos_ok = True
            for bb, t in ins:
                ix = flow.strip_casts(flow.expr_of(sa, t["args"][1], max_depth=12))
                if ix == ("const", 0):
                    continue
                j_ = None
                if ix[0] == "bin" and ix[1].replace("WithOverflow", "") == "Add" and ("const", 1) in ix[2:]:
                    j_ = ix[2] if ix[3] == ("const", 1) else ix[3]
                if j_ is None or not re.search(r"Iterator::(rposition|position|next)|partition_point|binary_search", str(j_)) or "wakers" not in str(j_):
                    pos_ok = False
            cmp_ok = False
            for p_, cb in facts.bodies.items():
                if p_.startswith(sa.path + "::{closure"):
                    r_ = flow.expr_of(cb, {"cp": [0]}, max_depth=8)
                    txt = str(r_)
                    if re.search(r"'(Le|Lt|Ge|Gt|Eq)'|PartialOrd::(le|lt|ge|gt)|Ord::cmp", txt) and "'i'" in txt and "upvar" in txt:
                        cmp_ok = True
            if cmpc:
                c0, c1 = (flow.expr_of(sa, a, max_depth=8) for a in cmpc[0][1]["args"])
                cmp_ok = cmp_ok or ("wakers" in str(c0) and c1 == ("arg", 3))
        finally:
            flow.CLOSURE_DEFS = flow_old
        ok3 = pos_ok and cmp_ok
        why3 = "every insert position is 0 or one past a position found by scanning the stored indices against i" if ok3 else ("an insert position is neither 0 nor (position found by a scan of the deque) + 1: the deque does not stay sorted by index" if not pos_ok else "the search that positions the new waker does not compare stored indices with the index being added")
    elif writers != ["insert", "insert"]:
        why3 = f"WaitingShard::add modifies the deque with {writers}: expected only sorted inserts (and in-place replacement)"
    ctx.ob("SORTED-wakers", "sorted-insert", ok3, why3, site_of(sa, ins[0][0]) if ins else site_of(sa))


def malsec_leaves(e):
    from rules import malsec
    return malsec._leaves(e, "arg")


def waker_ring(ctx, facts):
    """UnorderedReceiver keeps one waker slot per record in the window (next, next + len]; a record further ahead goes to
    the overflow list.  If the ring were used for a record outside the window, its slot index (i mod len) would collide
    with the slot of a record inside the window and one of the two waiters would be overwritten."""
    from rules.C13 import ieval, NoEval
    ctx.rule("SLOT-ring: in OperatingState::add_waker the ring slot (an index expression of i and wakers.len()) is written only on paths whose guards, evaluated for len = 1..6, next = 0..7 and every i, imply next < i <= next + len, and the slot indices of the len records of the window are pairwise distinct; every other i > next goes to the overflow list")
    b = facts.bodies.get("helpers::buffers::unordered_receiver::OperatingState::<S, C>::add_waker")
    if b is None:
        return ctx.missing("SLOT-ring", "OperatingState::add_waker")
    ctx.count(bodies=1)
    dom = b.dominators()
    eg = flow.edge_guards(b)
    OPS = {"Ge": lambda a, c: a >= c, "Gt": lambda a, c: a > c, "Le": lambda a, c: a <= c, "Lt": lambda a, c: a < c, "Eq": lambda a, c: a == c, "Ne": lambda a, c: a != c}
    ring = [(bb, flow.expr_of(b, t["args"][1], max_depth=8)) for bb, t in b.calls() if (F.callee(t)[0] or "").endswith("ops::IndexMut::index_mut") and "wakers" in str(flow.expr_of(b, t["args"][0], max_depth=4)) and "overflow" not in str(flow.expr_of(b, t["args"][0], max_depth=4))]
    over = [bb for bb, t in b.calls() if (F.callee(t)[0] or "").endswith("Vec::<T, A>::push") and "overflow_wakers" in str(flow.expr_of(b, t["args"][0], max_depth=4))]
    if not ring or not over:
        return ctx.missing("SLOT-ring", "ring slot write / overflow push in add_waker")
    I, NEXT, LEN = ("arg", 2), ("arg", 1, "next"), ("call", "std::vec::Vec::<T, A>::len", (("arg", 1, "wakers"),))
    bad = None
    try:
        for ln in range(1, 7):
            for nx in range(0, 8):
                slots = {}
                for i in range(0, nx + 2 * ln + 3):
                    env = {I: i, NEXT: nx, LEN: ln}
                    def on(bb):
                        return all(OPS[op](ieval(l, env), ieval(r, env)) for tgt, (op, l, r) in eg if op in OPS and flow.dominates(dom, tgt, bb))
                    r_on = [e for bb, e in ring if on(bb)]
                    o_on = any(on(bb) for bb in over)
                    inside = nx < i <= nx + ln
                    if r_on and not inside and bad is None:
                        bad = f"len {ln}, next {nx}: record {i} is outside the window ({nx}, {nx + ln}] but uses ring slot {ieval(r_on[0], env)}, which belongs to record {[j for j in range(nx + 1, nx + ln + 1) if j % ln == ieval(r_on[0], env) % ln][:1]}: one of the two wakers is overwritten"
                    if inside and not r_on and bad is None:
                        bad = f"len {ln}, next {nx}: record {i} inside the window gets no ring slot"
                    if i > nx + ln and not o_on and bad is None:
                        bad = f"len {ln}, next {nx}: record {i} beyond the window is not put on the overflow list"
                    if r_on and inside:
                        s_ = ieval(r_on[0], env)
                        if not (0 <= s_ < ln) and bad is None:
                            bad = f"len {ln}: slot {s_} out of range for record {i}"
                        if s_ in slots and bad is None:
                            bad = f"len {ln}, next {nx}: records {slots[s_]} and {i} of the same window share slot {s_}"
                        slots[s_] = i
    except NoEval as ex:
        bad = f"cannot evaluate ({ex})"
    ctx.ob("SLOT-ring", "window-maps-injectively-to-slots", bad is None, "ring slots are used exactly for next < i <= next + len, one slot per record; the rest overflows" if bad is None else bad, site_of(b, ring[0][0]))


def waker_overflow(ctx, facts):
    """A request further ahead than the window parks its waker on the overflow list, which wake_next drains as the
    cursor advances.  Several such requests can be outstanding at once (from different tasks), so the list has to keep
    one waker per request: writing the new waker over an entry that was not looked up by this request's index drops the
    registration of whoever owned that entry, and when the cursor reaches that record nobody is woken.  The list has
    two sibling element types (with and without the stall-detection feature); the helper image is built without it."""
    ctx.rule("OVERFLOW-append: in OperatingState::add_waker the given waker reaches overflow_wakers only by push, or by overwriting the entry returned by a search whose predicate is `entry index == i`; nothing else in add_waker shrinks or overwrites the list")
    b = facts.bodies.get("helpers::buffers::unordered_receiver::OperatingState::<S, C>::add_waker")
    if b is None:
        return ctx.missing("OVERFLOW-append", "OperatingState::add_waker")
    ctx.count(bodies=1)
    old = flow.CLOSURE_DEFS
    flow.CLOSURE_DEFS = True
    try:
        from rules.C06 import upvar_sources
        pushes, bad = [], []

        def keyed(e):
            """does expression e select its element through find/position(|entry| entry.<field> == i) ?"""
            for sub in malsec_leaves_all(e):
                if sub[0] == "call" and re.search(r"Iterator::(find|position|rposition)$", sub[1]) and len(sub[2]) >= 2:
                    cl = sub[2][1]
                    if cl[0] == "agg" and isinstance(cl[1], tuple) and cl[1][0] == "closure":
                        cb = facts.bodies.get(cl[1][1])
                        if cb is None:
                            continue
                        ups = upvar_sources(facts, b, cl[1][1])
                        ret = flow.expr_of(cb, {"cp": [0]}, max_depth=8)
                        if ret[0] == "bin" and ret[1] == "Eq":
                            sides = [ret[2], ret[3]]
                            up = [s for s in sides if s[0] == "upvar" and ups.get(s[1]) == ("arg", 2)]
                            it = [s for s in sides if s[0] == "arg" and s[1] == 2]
                            if up and it:
                                return True
            return False

        for bb, t in b.calls():
            fn = F.callee(t)[0] or ""
            args = [flow.expr_of(b, x, max_depth=20) for x in t["args"]]
            if not args or "overflow_wakers" not in str(args[0]):
                continue
            if re.search(r"Vec::<T, A>::push$", fn):
                if "('arg', 3)" in str(args[1:]):
                    pushes.append(bb)
                continue
            if re.search(r"(Clone::clone_from|Option::<T>::(replace|insert)|mem::(replace|swap))$", fn):
                if not keyed(args[0]):
                    bad.append((bb, f"{fn.split('::')[-1]} overwrites an overflow entry that was not looked up by this request's index"))
                continue
            if re.search(r"Vec::<T, A>::(pop|clear|truncate|remove|swap_remove|drain|retain|retain_mut|dedup\w*|split_off)$|mem::take$", fn):
                bad.append((bb, f"{fn.split('::')[-1]} removes parked wakers while a new one is being registered"))
        # plain assignments into an element of the list (`*slot = waker.clone()`)
        for bb, idx, st in b.iter_assigns():
            if len(st["p"]) > 1 and st["p"][1] == "*" and st["r"]["k"] in ("use", "agg"):
                dst = flow.expr_of(b, {"cp": [st["p"][0]]}, max_depth=20)
                if "overflow_wakers" in str(dst) and "Vec::<T, A>::push" not in str(dst) and not keyed(dst):
                    bad.append((bb, "an overflow entry that was not looked up by this request's index is assigned"))
        ok = bool(pushes) and not bad
        ctx.ob("OVERFLOW-append", "add_waker:far-ahead-wakers-accumulate", ok,
               "far-ahead wakers are appended (or refresh the entry with the same index); every outstanding request keeps its registration" if ok else
               ("no push of the given waker onto overflow_wakers" if not pushes else f"{bad[0][1]}: with two far-ahead requests outstanding, the other one loses its waker and is never woken when the cursor reaches it"),
               site_of(b, bad[0][0]) if bad else site_of(b))
    finally:
        flow.CLOSURE_DEFS = old


def malsec_leaves_all(e):
    """every sub-expression of e (pre-order)"""
    yield e
    if isinstance(e, tuple):
        for x in e[1:]:
            if isinstance(x, tuple):
                if x and isinstance(x[0], str):
                    yield from malsec_leaves_all(x)
                else:
                    for y in x:
                        if isinstance(y, tuple):
                            yield from malsec_leaves_all(y)


def overflow_drain(ctx, facts):
    """wake_next is the only thing that ever wakes a request parked on the overflow list.  A request for record i parked
    while i > next + len has to be polled again at some cursor position m with i - len <= m <= i (then it fits the ring,
    or is served directly); otherwise the cursor reaches i with nobody to wake and stops for good.  So (a) whether the
    list is drained may depend on nothing but the cursor and the ring size - in particular not on whether somebody
    happened to sit in the ring slot; (b) the positions at which it is drained must hit every run of len + 1 consecutive
    cursor values; (c) a drain wakes every parked waker."""
    from rules.C13 import ieval, NoEval, guard_holds
    ctx.rule("OVERFLOW-drain: in OperatingState::wake_next every switch that can steer around the drain of overflow_wakers is an arithmetic test of next and wakers.len(); evaluated for len = 2..9 the drained cursor positions meet every interval [i - len, i]; the drain takes the whole list and wakes every element (loop left only when the iterator is exhausted)")
    b = facts.bodies.get("helpers::buffers::unordered_receiver::OperatingState::<S, C>::wake_next")
    if b is None:
        return ctx.missing("OVERFLOW-drain", "OperatingState::wake_next")
    ctx.count(bodies=1)
    takes = [bb for bb, t in b.calls() if re.search(r"mem::take$|Vec::<T, A>::drain$", F.callee(t)[0] or "") and "overflow_wakers" in str(flow.expr_of(b, t["args"][0], max_depth=6))]
    if not takes:
        return ctx.missing("OVERFLOW-drain", "take / drain of overflow_wakers in wake_next")
    D = takes[0]
    rets = [bb for bb in b.live_blocks() if b.term(bb)["k"] == "ret"]
    # (a) gates: switches that can reach D but have a successor from which D is no longer reachable
    reach_D = {bb for bb in b.live_blocks() if D in b.reachable(bb)}
    guards = {}
    for tgt, f in flow.edge_guards(b):
        guards.setdefault(tgt, []).append(f)
    OPS = {"Ge": lambda a, c: a >= c, "Gt": lambda a, c: a > c, "Le": lambda a, c: a <= c, "Lt": lambda a, c: a < c, "Eq": lambda a, c: a == c, "Ne": lambda a, c: a != c}
    gates, opaque = [], []
    for s in sorted(reach_D):
        if b.term(s)["k"] != "switch" or s == D:
            continue
        succs = b.succs(s)
        live = [x for x in succs if b.term(x)["k"] != "unreachable"]
        away = [x for x in live if x not in reach_D]
        if not away:
            continue
        toward = [x for x in live if x in reach_D]
        fs = [f for x in toward for f in guards.get(x, []) if f[0] in OPS or (f[0] in ("true", "false") and f[1][0] == "call" and re.search(r"::(is_multiple_of|is_power_of_two)$", f[1][1]))]
        if len(toward) == 1 and fs:
            gates.append((s, fs[0]))
        elif len(toward) == 1 and any(f[0] == "false" and re.search(r"::is_empty$", str(f[1][1])) and "overflow_wakers" in str(f[1]) for f in guards.get(toward[0], []) if f[1][0] == "call"):
            continue            # "nothing parked" steers around the drain: harmless
        else:
            opaque.append(s)
    if opaque:
        ctx.ob("OVERFLOW-drain", "wake_next:drain-depends-on-cursor-only", False,
               "a test that is not arithmetic in the cursor and the ring size can skip the drain of the overflow list (for instance: nobody was parked in the ring slot of the new cursor position): far-ahead requests then miss the only wake-up that would have let them move into the ring", site_of(b, opaque[0]))
    else:
        ctx.ob("OVERFLOW-drain", "wake_next:drain-depends-on-cursor-only", True, f"{len(gates)} arithmetic gate(s) in front of the drain", site_of(b, D))
    # (b) cadence
    NEXT, LEN = ("arg", 1, "next"), ("call", "std::vec::Vec::<T, A>::len", (("arg", 1, "wakers"),))
    bad = None
    if not opaque:
        try:
            for ln in range(2, 10):
                drained = set()
                for m in range(1, 6 * ln + 8):
                    env = {NEXT: m, LEN: ln}
                    if all(guard_holds(g, env) for s, g in gates):
                        drained.add(m)
                for i in range(ln + 2, 5 * ln + 6):
                    if not any(m in drained for m in range(max(1, i - ln), i + 1)):
                        bad = f"ring of {ln}: a request for record {i} parked on the overflow list is not woken at any cursor position in [{i - ln}, {i}] (drained at {sorted(drained)[:6]}...): the cursor reaches {i} with that request still parked and nobody to wake"
                        break
                if bad:
                    break
        except NoEval as ex:
            bad = f"cannot evaluate the drain condition ({ex})"
        ctx.ob("OVERFLOW-drain", "wake_next:cadence-meets-every-window", bad is None, "drain positions meet every run of len + 1 cursor values for len = 2..9" if bad is None else bad, site_of(b, gates[0][0]) if gates else site_of(b, D))
    # (c) every parked waker is woken
    nxt = [(bb, t) for bb, t in b.calls() if re.search(r"Iterator::next$", F.callee(t)[0] or "") and "overflow_wakers" in str(flow.expr_of(b, t["args"][0], max_depth=10))]
    fe = [(bb, t) for bb, t in b.calls() if re.search(r"Iterator::for_each$", F.callee(t)[0] or "") and "overflow_wakers" in str(flow.expr_of(b, t["args"][0], max_depth=10))]
    wk = [(bb, t) for bb, t in b.calls() if re.search(r"Waker::wake(_by_ref)?$", F.callee(t)[0] or "") and "overflow_wakers" in str(flow.expr_of(b, t["args"][0], max_depth=14))]
    why = None
    if nxt:
        N = nxt[0][0]
        if not wk:
            why = "the loop over the drained list does not wake its elements"
        else:
            W = wk[0][0]
            # from the wake call, a return must not be reachable without asking the iterator again
            esc = [r for r in rets if r in b.reachable(W, avoid=frozenset([N]))]
            # and the wake must sit on every path from `next() -> Some` back to next()
            sw = flow.next_switch(b, b.term(N)["t"]) if "t" in b.term(N) else None
            some = []
            if sw is not None:
                some = [x for x in b.succs(sw) if b.term(x)["k"] != "unreachable" and W in b.reachable(x, avoid=frozenset([N]))]
                skip = [x for x in some if N in b.reachable(x, avoid=frozenset([W])) and x != W]
                if skip:
                    why = "a parked waker can be taken from the drained list and dropped without being woken"
            if esc and why is None:
                why = "the loop over the drained list can stop before the iterator is exhausted: the remaining parked wakers are dropped unwoken"
    elif fe:
        cl = flow.expr_of(b, fe[0][1]["args"][1], max_depth=6)
        if "Waker::wake" not in str(cl) and not any("Waker::wake" in (F.callee(t)[0] or "") for k, cb in facts.bodies.items() if k.startswith(b.path + "::{closure") for _, t in cb.calls()):
            why = "for_each over the drained list does not wake its elements"
    else:
        why = "no loop over the drained overflow list found"
    ctx.ob("OVERFLOW-drain", "wake_next:wakes-every-parked-waker", why is None, "the whole list is taken and each element woken" if why is None else why, site_of(b, D))
