// Minimal owned JSON value + writer (no dependencies).
pub enum J {
    Null,
    Bool(bool),
    Num(u64),
    Str(String),
    Arr(Vec<J>),
    Obj(Vec<(&'static str, J)>),
}

impl J {
    pub fn s<S: Into<String>>(s: S) -> J {
        J::Str(s.into())
    }
    pub fn n(n: usize) -> J {
        J::Num(n as u64)
    }
    pub fn arr(v: Vec<J>) -> J {
        J::Arr(v)
    }
    pub fn obj(v: Vec<(&'static str, J)>) -> J {
        J::Obj(v)
    }
    pub fn write(&self, out: &mut Vec<u8>) {
        match self {
            J::Null => out.extend_from_slice(b"null"),
            J::Bool(b) => out.extend_from_slice(if *b { b"true" } else { b"false" }),
            J::Num(n) => out.extend_from_slice(n.to_string().as_bytes()),
            J::Str(s) => write_str(s, out),
            J::Arr(v) => {
                out.push(b'[');
                for (i, x) in v.iter().enumerate() {
                    if i > 0 {
                        out.push(b',');
                    }
                    x.write(out);
                }
                out.push(b']');
            }
            J::Obj(v) => {
                out.push(b'{');
                for (i, (k, x)) in v.iter().enumerate() {
                    if i > 0 {
                        out.push(b',');
                    }
                    write_str(k, out);
                    out.push(b':');
                    x.write(out);
                }
                out.push(b'}');
            }
        }
    }
}

fn write_str(s: &str, out: &mut Vec<u8>) {
    out.push(b'"');
    for c in s.chars() {
        match c {
            '"' => out.extend_from_slice(b"\\\""),
            '\\' => out.extend_from_slice(b"\\\\"),
            '\n' => out.extend_from_slice(b"\\n"),
            '\r' => out.extend_from_slice(b"\\r"),
            '\t' => out.extend_from_slice(b"\\t"),
            c if (c as u32) < 0x20 => out.extend_from_slice(format!("\\u{:04x}", c as u32).as_bytes()),
            c => {
                let mut b = [0u8; 4];
                out.extend_from_slice(c.encode_utf8(&mut b).as_bytes());
            }
        }
    }
    out.push(b'"');
}
