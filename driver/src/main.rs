// ipa-facts: a rustc_private driver that dumps the resolved program (pre-borrowck MIR with
// resolved callees, evaluated constants, ADT / impl / signature tables) of selected crates as
// JSON lines.  It is injected with RUSTC_WORKSPACE_WRAPPER under `cargo +nightly check`.
// It never runs any code of the analysed crate; const-evaluation is the compiler's own.
#![feature(rustc_private)]

extern crate rustc_abi;
extern crate rustc_data_structures;
extern crate rustc_driver;
extern crate rustc_hir;
extern crate rustc_interface;
extern crate rustc_middle;
extern crate rustc_session;
extern crate rustc_span;

mod json;

use std::cell::Cell;
use std::sync::Mutex;

use json::J;
use rustc_driver::{Callbacks, Compilation};
use rustc_hir::def::DefKind;
use rustc_hir::def_id::{DefId, LocalDefId};
use rustc_middle::mir::{
    self, AggregateKind, BasicBlock, Body, BorrowKind, Operand, Place, ProjectionElem, Rvalue,
    StatementKind, TerminatorKind, UnwindAction,
};
use rustc_middle::ty::{self, GenericArgsRef, Instance, Ty, TyCtxt, TypingEnv};
use rustc_span::Span;

type MirBuiltFn = for<'tcx> fn(
    TyCtxt<'tcx>,
    LocalDefId,
) -> &'tcx rustc_data_structures::steal::Steal<Body<'tcx>>;

thread_local! {
    static ORIG: Cell<Option<MirBuiltFn>> = const { Cell::new(None) };
}
static ORIG_GLOBAL: Mutex<Option<MirBuiltFn>> = Mutex::new(None);

// Cloned bodies with their lifetime erased; they are only used inside `after_analysis`, while the
// TyCtxt that owns their interned data is still alive.
struct Stored(LocalDefId, Body<'static>);
unsafe impl Send for Stored {}
static BODIES: Mutex<Vec<Stored>> = Mutex::new(Vec::new());

fn my_mir_built<'tcx>(
    tcx: TyCtxt<'tcx>,
    def: LocalDefId,
) -> &'tcx rustc_data_structures::steal::Steal<Body<'tcx>> {
    let orig = ORIG
        .with(|c| c.get())
        .or_else(|| *ORIG_GLOBAL.lock().unwrap())
        .expect("orig provider");
    let steal = orig(tcx, def);
    {
        let body = steal.borrow();
        let cloned: Body<'tcx> = (*body).clone();
        let erased: Body<'static> = unsafe { std::mem::transmute(cloned) };
        BODIES.lock().unwrap().push(Stored(def, erased));
    }
    steal
}

struct Cb;

impl Callbacks for Cb {
    fn config(&mut self, config: &mut rustc_interface::interface::Config) {
        config.override_queries = Some(|_sess, providers| {
            let o = providers.queries.mir_built;
            ORIG.with(|c| c.set(Some(o)));
            *ORIG_GLOBAL.lock().unwrap() = Some(o);
            providers.queries.mir_built = my_mir_built;
        });
    }

    fn after_analysis<'tcx>(
        &mut self,
        _compiler: &rustc_interface::interface::Compiler,
        tcx: TyCtxt<'tcx>,
    ) -> Compilation {
        dump(tcx);
        Compilation::Continue
    }
}

fn main() {
    let mut args: Vec<String> = std::env::args().collect();
    // RUSTC_WORKSPACE_WRAPPER: argv[1] is the path of the real rustc.
    if args.len() > 1 && (args[1].ends_with("rustc") || args[1].contains("/rustc")) {
        args.remove(1);
    }
    let crate_name = args
        .iter()
        .position(|a| a == "--crate-name")
        .and_then(|i| args.get(i + 1))
        .cloned()
        .unwrap_or_default();
    let wanted = std::env::var("IPA_FACTS_CRATES").unwrap_or_else(|_| "ipa_core".into());
    let is_wanted = wanted.split(',').any(|c| c == crate_name);
    // build scripts and non-selected crates pass straight through
    let is_build_script = crate_name.starts_with("build_script");
    if !is_wanted || is_build_script || std::env::var("IPA_FACTS_OUT").is_err() {
        struct Nop;
        impl Callbacks for Nop {}
        rustc_driver::run_compiler(&args, &mut Nop);
        return;
    }
    rustc_driver::run_compiler(&args, &mut Cb);
}

// ---------------------------------------------------------------------------------------------

struct Cx<'tcx> {
    tcx: TyCtxt<'tcx>,
    env: TypingEnv<'tcx>,
    detail: bool,
    body: Cell<Option<&'tcx Body<'tcx>>>,
}

fn sp_line(tcx: TyCtxt<'_>, sp: Span) -> (String, usize) {
    let sm = tcx.sess.source_map();
    let lo = sm.lookup_char_pos(sp.lo());
    let name = match &lo.file.name {
        rustc_span::FileName::Real(r) => r
            .local_path()
            .map(|p| p.to_string_lossy().to_string())
            .unwrap_or_else(|| format!("{:?}", lo.file.name)),
        other => format!("{:?}", other),
    };
    (name, lo.line)
}

fn expn_tag(tcx: TyCtxt<'_>, sp: Span) -> Option<String> {
    if !sp.from_expansion() {
        return None;
    }
    let d = sp.ctxt().outer_expn_data();
    Some(match d.kind {
        rustc_span::ExpnKind::Desugaring(k) => format!("d:{:?}", k),
        rustc_span::ExpnKind::Macro(_, name) => {
            let krate = d
                .macro_def_id
                .map(|id| tcx.crate_name(id.krate).to_string())
                .unwrap_or_default();
            format!("m:{}::{}", krate, name)
        }
        rustc_span::ExpnKind::AstPass(_) => "a".to_string(),
        rustc_span::ExpnKind::Root => "r".to_string(),
    })
}

fn ty_head<'tcx>(tcx: TyCtxt<'tcx>, t: Ty<'tcx>) -> J {
    let mut t = t;
    loop {
        match t.kind() {
            ty::Ref(_, inner, _) => t = *inner,
            ty::RawPtr(inner, _) => t = *inner,
            _ => break,
        }
    }
    match t.kind() {
        ty::Adt(def, _) => J::s(tcx.def_path_str(def.did())),
        ty::Closure(d, _) | ty::Coroutine(d, _) | ty::CoroutineClosure(d, _) => {
            J::s(format!("closure:{}", tcx.def_path_str(*d)))
        }
        ty::FnDef(d, _) => J::s(format!("fn:{}", tcx.def_path_str(*d))),
        ty::Param(p) => J::s(format!("param:{}", p.name)),
        ty::Alias(..) => J::s("alias"),
        ty::Dynamic(..) => J::s("dyn"),
        ty::Tuple(_) => J::s("tuple"),
        ty::Array(..) => J::s("array"),
        ty::Slice(..) => J::s("slice"),
        ty::Bool | ty::Char | ty::Int(_) | ty::Uint(_) | ty::Float(_) | ty::Str => {
            J::s(format!("{}", t))
        }
        _ => J::Null,
    }
}

impl<'tcx> Cx<'tcx> {
    fn place(&self, p: &Place<'tcx>) -> J {
        let mut v = vec![J::n(p.local.as_usize())];
        let body = self.body.get();
        for (base, e) in p.iter_projections() {
            v.push(match e {
                ProjectionElem::Deref => J::s("*"),
                ProjectionElem::Field(f, _) => {
                    // name of the field when the base is a struct / enum variant
                    let mut name = J::Null;
                    if let Some(body) = body {
                        let r = std::panic::catch_unwind(std::panic::AssertUnwindSafe(|| {
                            let pty = base.ty(&body.local_decls, self.tcx);
                            if let ty::Adt(adt, _) = pty.ty.kind() {
                                let vi = pty.variant_index.unwrap_or(rustc_abi::FIRST_VARIANT);
                                if adt.is_struct() || adt.is_enum() || adt.is_union() {
                                    return Some(adt.variant(vi).fields[f].name.to_string());
                                }
                            }
                            None
                        }));
                        if let Ok(Some(n)) = r {
                            name = J::s(n);
                        }
                    }
                    J::arr(vec![J::s("f"), J::n(f.as_usize()), name])
                }
                ProjectionElem::Downcast(name, vi) => J::arr(vec![
                    J::s("d"),
                    J::n(vi.as_usize()),
                    name.map(|s| J::s(s.to_string())).unwrap_or(J::Null),
                ]),
                ProjectionElem::Index(l) => J::arr(vec![J::s("i"), J::n(l.as_usize())]),
                ProjectionElem::ConstantIndex { offset, min_length, from_end } => J::arr(vec![
                    J::s("ci"),
                    J::n(offset as usize),
                    J::n(min_length as usize),
                    J::Bool(from_end),
                ]),
                ProjectionElem::Subslice { from, to, from_end } => J::arr(vec![
                    J::s("sub"),
                    J::n(from as usize),
                    J::n(to as usize),
                    J::Bool(from_end),
                ]),
                ProjectionElem::OpaqueCast(_) => J::s("oc"),
                ProjectionElem::UnwrapUnsafeBinder(_) => J::s("ub"),
            });
        }
        J::arr(v)
    }

    fn gargs(&self, args: GenericArgsRef<'tcx>) -> J {
        J::arr(
            args.iter()
                .filter(|a| a.as_region().is_none())
                .map(|a| J::s(format!("{}", a)))
                .collect(),
        )
    }

    fn fn_info(&self, def_id: DefId, args: GenericArgsRef<'tcx>) -> Vec<(&'static str, J)> {
        let tcx = self.tcx;
        let mut o = vec![("fn", J::s(tcx.def_path_str(def_id))), ("ga", self.gargs(args))];
        // containing trait / impl
        if let Some(tr) = tcx.trait_of_assoc(def_id) {
            o.push(("trait", J::s(tcx.def_path_str(tr))));
            if let Some(st) = args.types().next() {
                o.push(("self", J::s(format!("{}", st))));
                o.push(("selfhead", ty_head(tcx, st)));
            }
        } else if let Some(imp) = tcx.impl_of_assoc(def_id) {
            let st = tcx.type_of(imp).instantiate_identity().skip_norm_wip();
            o.push(("implself", J::s(format!("{}", st))));
            o.push(("selfhead", ty_head(tcx, st)));
        }
        // resolution
        let res = std::panic::catch_unwind(std::panic::AssertUnwindSafe(|| {
            let args = tcx.erase_and_anonymize_regions(args);
            let args = tcx.try_normalize_erasing_regions(self.env, ty::Unnormalized::new_wip(args)).ok()?;
            match Instance::try_resolve(tcx, self.env, def_id, args) {
                Ok(Some(inst)) => Some(inst),
                _ => None,
            }
        }));
        if let Ok(Some(inst)) = res {
            let rid = inst.def_id();
            if rid != def_id {
                o.push(("res", J::s(tcx.def_path_str(rid))));
                if let Some(imp) = tcx.impl_of_assoc(rid) {
                    let st = tcx.type_of(imp).instantiate_identity().skip_norm_wip();
                    o.push(("resself", J::s(format!("{}", st))));
                }
            }
            match inst.def {
                ty::InstanceKind::Item(_) => {}
                other => o.push(("ik", J::s(format!("{:?}", other).chars().take(40).collect::<String>()))),
            }
        }
        o
    }

    fn constant(&self, c: &mir::ConstOperand<'tcx>) -> J {
        let tcx = self.tcx;
        let ty = c.const_.ty();
        let mut o: Vec<(&'static str, J)> = Vec::new();
        if !matches!(ty.kind(), ty::FnDef(..)) {
            o.push(("ty", J::s(format!("{}", ty))));
        }
        match ty.kind() {
            ty::FnDef(def_id, args) => {
                o.extend(self.fn_info(*def_id, args));
            }
            _ => {
                if let mir::Const::Unevaluated(uv, _) = c.const_ {
                    o.push(("def", J::s(tcx.def_path_str(uv.def))));
                    o.push(("dga", self.gargs(uv.args)));
                    if uv.promoted.is_some() {
                        o.push(("promoted", J::Bool(true)));
                    }
                }
                let is_scalar_ty = matches!(
                    ty.kind(),
                    ty::Bool | ty::Char | ty::Int(_) | ty::Uint(_) | ty::Float(_)
                );
                if is_scalar_ty {
                    let r = std::panic::catch_unwind(std::panic::AssertUnwindSafe(|| {
                        c.const_.try_eval_scalar_int(tcx, self.env)
                    }));
                    if let Ok(Some(si)) = r {
                        let bits = si.to_bits(si.size());
                        let v = match ty.kind() {
                            ty::Int(_) => {
                                let sz = si.size().bits();
                                let shift = 128 - sz as u32;
                                let sv = ((bits << shift) as i128) >> shift;
                                format!("{}", sv)
                            }
                            _ => format!("{}", bits),
                        };
                        o.push(("v", J::s(v)));
                        if let ty::Float(_) = ty.kind() {
                            let f = if si.size().bits() == 64 {
                                f64::from_bits(bits as u64)
                            } else {
                                f32::from_bits(bits as u32) as f64
                            };
                            o.push(("fv", J::s(format!("{:?}", f))));
                        }
                    }
                }
                // references to statics: `&STATIC` is a constant pointer to the static's allocation
                if let mir::Const::Val(mir::ConstValue::Scalar(rustc_middle::mir::interpret::Scalar::Ptr(ptr, _)), _) = c.const_ {
                    let r = std::panic::catch_unwind(std::panic::AssertUnwindSafe(|| {
                        match tcx.try_get_global_alloc(ptr.provenance.alloc_id()) {
                            Some(rustc_middle::mir::interpret::GlobalAlloc::Static(did)) => Some(tcx.def_path_str(did)),
                            _ => None,
                        }
                    }));
                    if let Ok(Some(p)) = r {
                        o.push(("static", J::s(p)));
                    }
                }
                if o.len() == 1 {
                    let s = format!("{:?}", c.const_);
                    o.push(("s", J::s(s.chars().take(120).collect::<String>())));
                }
            }
        }
        J::obj(o)
    }

    fn operand(&self, op: &Operand<'tcx>) -> J {
        match op {
            Operand::Copy(p) => J::obj(vec![("cp", self.place(p))]),
            Operand::Move(p) => J::obj(vec![("mv", self.place(p))]),
            Operand::Constant(c) => J::obj(vec![("k", self.constant(c))]),
            Operand::RuntimeChecks(rc) => J::obj(vec![("rc", J::s(format!("{:?}", rc)))]),
        }
    }

    fn rvalue(&self, rv: &Rvalue<'tcx>) -> J {
        let tcx = self.tcx;
        match rv {
            Rvalue::Use(op, _) => J::obj(vec![("k", J::s("use")), ("o", self.operand(op))]),
            Rvalue::Repeat(op, n) => J::obj(vec![
                ("k", J::s("rep")),
                ("o", self.operand(op)),
                ("n", J::s(format!("{}", n))),
            ]),
            Rvalue::Ref(_, bk, p) => J::obj(vec![
                ("k", J::s("ref")),
                (
                    "m",
                    J::s(match bk {
                        BorrowKind::Shared => "shared",
                        BorrowKind::Fake(_) => "fake",
                        BorrowKind::Mut { .. } => "mut",
                    }),
                ),
                ("p", self.place(p)),
            ]),
            Rvalue::ThreadLocalRef(d) => {
                J::obj(vec![("k", J::s("tls")), ("def", J::s(tcx.def_path_str(*d)))])
            }
            Rvalue::RawPtr(_, p) => J::obj(vec![("k", J::s("raw")), ("p", self.place(p))]),
            Rvalue::Cast(ck, op, ty) => J::obj(vec![
                ("k", J::s("cast")),
                ("ck", J::s(format!("{:?}", ck).split('(').next().unwrap_or("").to_string())),
                ("o", self.operand(op)),
                ("ty", J::s(format!("{}", ty))),
            ]),
            Rvalue::BinaryOp(op, ab) => J::obj(vec![
                ("k", J::s("bin")),
                ("op", J::s(format!("{:?}", op))),
                ("a", self.operand(&ab.0)),
                ("b", self.operand(&ab.1)),
            ]),
            Rvalue::UnaryOp(op, a) => J::obj(vec![
                ("k", J::s("un")),
                ("op", J::s(format!("{:?}", op))),
                ("a", self.operand(a)),
            ]),
            Rvalue::Discriminant(p) => J::obj(vec![("k", J::s("disc")), ("p", self.place(p))]),
            Rvalue::Aggregate(ak, ops) => {
                let mut o: Vec<(&'static str, J)> = vec![("k", J::s("agg"))];
                match &**ak {
                    AggregateKind::Array(t) => {
                        o.push(("ak", J::s("array")));
                        o.push(("ety", J::s(format!("{}", t))));
                    }
                    AggregateKind::Tuple => o.push(("ak", J::s("tuple"))),
                    AggregateKind::Adt(did, vi, args, _, _) => {
                        let adt = tcx.adt_def(*did);
                        o.push(("ak", J::s("adt")));
                        o.push(("adt", J::s(tcx.def_path_str(*did))));
                        o.push(("vi", J::n(vi.as_usize())));
                        o.push(("vn", J::s(adt.variant(*vi).name.to_string())));
                        o.push(("ga", self.gargs(args)));
                    }
                    AggregateKind::Closure(d, _) => {
                        o.push(("ak", J::s("closure")));
                        o.push(("def", J::s(tcx.def_path_str(*d))));
                    }
                    AggregateKind::Coroutine(d, _) => {
                        o.push(("ak", J::s("coroutine")));
                        o.push(("def", J::s(tcx.def_path_str(*d))));
                    }
                    AggregateKind::CoroutineClosure(d, _) => {
                        o.push(("ak", J::s("coroutine_closure")));
                        o.push(("def", J::s(tcx.def_path_str(*d))));
                    }
                    AggregateKind::RawPtr(..) => o.push(("ak", J::s("rawptr"))),
                }
                o.push(("ops", J::arr(ops.iter().map(|x| self.operand(x)).collect())));
                J::obj(o)
            }
            Rvalue::CopyForDeref(p) => J::obj(vec![("k", J::s("cfd")), ("p", self.place(p))]),
            Rvalue::WrapUnsafeBinder(op, _) => {
                J::obj(vec![("k", J::s("wub")), ("o", self.operand(op))])
            }
        }
    }

    fn span_fields(&self, sp: Span, o: &mut Vec<(&'static str, J)>) {
        let (_, line) = sp_line(self.tcx, sp);
        o.push(("ln", J::n(line)));
        if let Some(x) = expn_tag(self.tcx, sp) {
            o.push(("x", J::s(x)));
            // line of the outermost call site in user code
            let cs = sp.source_callsite();
            let (f, l) = sp_line(self.tcx, cs);
            o.push(("cln", J::n(l)));
            o.push(("cfile", J::s(f)));
        }
    }

    fn bb(b: BasicBlock) -> J {
        J::n(b.as_usize())
    }
    fn unwind(u: &UnwindAction) -> J {
        match u {
            UnwindAction::Cleanup(b) => Self::bb(*b),
            _ => J::Null,
        }
    }

    fn terminator(&self, t: &mir::Terminator<'tcx>) -> J {
        let mut o: Vec<(&'static str, J)> = Vec::new();
        match &t.kind {
            TerminatorKind::Goto { target } => {
                o.push(("k", J::s("goto")));
                o.push(("t", Self::bb(*target)));
            }
            TerminatorKind::SwitchInt { discr, targets } => {
                o.push(("k", J::s("switch")));
                o.push(("o", self.operand(discr)));
                o.push((
                    "ts",
                    J::arr(
                        targets
                            .iter()
                            .map(|(v, b)| J::arr(vec![J::s(format!("{}", v)), Self::bb(b)]))
                            .collect(),
                    ),
                ));
                o.push(("else", Self::bb(targets.otherwise())));
            }
            TerminatorKind::UnwindResume => o.push(("k", J::s("resume"))),
            TerminatorKind::UnwindTerminate(_) => o.push(("k", J::s("terminate"))),
            TerminatorKind::Return => o.push(("k", J::s("ret"))),
            TerminatorKind::Unreachable => o.push(("k", J::s("unreachable"))),
            TerminatorKind::Drop { place, target, unwind, .. } => {
                o.push(("k", J::s("drop")));
                o.push(("p", self.place(place)));
                o.push(("t", Self::bb(*target)));
                o.push(("u", Self::unwind(unwind)));
            }
            TerminatorKind::Call { func, args, destination, target, unwind, call_source, fn_span } => {
                o.push(("k", J::s("call")));
                o.push(("f", self.operand(func)));
                o.push(("args", J::arr(args.iter().map(|a| self.operand(&a.node)).collect())));
                o.push(("d", self.place(destination)));
                o.push(("t", target.map(Self::bb).unwrap_or(J::Null)));
                o.push(("u", Self::unwind(unwind)));
                o.push(("cs", J::s(format!("{:?}", call_source))));
                let (_, l) = sp_line(self.tcx, *fn_span);
                o.push(("fln", J::n(l)));
            }
            TerminatorKind::TailCall { func, args, .. } => {
                o.push(("k", J::s("tailcall")));
                o.push(("f", self.operand(func)));
                o.push(("args", J::arr(args.iter().map(|a| self.operand(&a.node)).collect())));
            }
            TerminatorKind::Assert { cond, expected, msg, target, unwind } => {
                o.push(("k", J::s("assert")));
                o.push(("c", self.operand(cond)));
                o.push(("e", J::Bool(*expected)));
                let (ak, ops): (String, Vec<J>) = match &**msg {
                    mir::AssertKind::BoundsCheck { len, index } => {
                        ("BoundsCheck".into(), vec![self.operand(len), self.operand(index)])
                    }
                    mir::AssertKind::Overflow(op, a, b) => {
                        (format!("Overflow:{:?}", op), vec![self.operand(a), self.operand(b)])
                    }
                    mir::AssertKind::OverflowNeg(a) => ("OverflowNeg".into(), vec![self.operand(a)]),
                    mir::AssertKind::DivisionByZero(a) => {
                        ("DivisionByZero".into(), vec![self.operand(a)])
                    }
                    mir::AssertKind::RemainderByZero(a) => {
                        ("RemainderByZero".into(), vec![self.operand(a)])
                    }
                    other => (
                        format!("{:?}", other).split(['(', ' ', '{']).next().unwrap_or("").to_string(),
                        vec![],
                    ),
                };
                o.push(("ak", J::s(ak)));
                o.push(("ops", J::arr(ops)));
                o.push(("t", Self::bb(*target)));
                o.push(("u", Self::unwind(unwind)));
            }
            TerminatorKind::Yield { value, resume, resume_arg, drop } => {
                o.push(("k", J::s("yield")));
                o.push(("v", self.operand(value)));
                o.push(("t", Self::bb(*resume)));
                o.push(("ra", self.place(resume_arg)));
                o.push(("dr", drop.map(Self::bb).unwrap_or(J::Null)));
            }
            TerminatorKind::CoroutineDrop => o.push(("k", J::s("codrop"))),
            TerminatorKind::FalseEdge { real_target, imaginary_target } => {
                o.push(("k", J::s("fe")));
                o.push(("t", Self::bb(*real_target)));
                o.push(("im", Self::bb(*imaginary_target)));
            }
            TerminatorKind::FalseUnwind { real_target, .. } => {
                o.push(("k", J::s("fu")));
                o.push(("t", Self::bb(*real_target)));
            }
            TerminatorKind::InlineAsm { .. } => o.push(("k", J::s("asm"))),
        }
        self.span_fields(t.source_info.span, &mut o);
        J::obj(o)
    }

    fn body(&self, def: LocalDefId, body: &Body<'tcx>) -> J {
        let tcx = self.tcx;
        let did = def.to_def_id();
        let root = tcx.typeck_root_def_id(did);
        let (file, line) = sp_line(tcx, body.span);
        let mut o: Vec<(&'static str, J)> = vec![
            ("path", J::s(tcx.def_path_str(did))),
            ("kind", J::s(format!("{:?}", tcx.def_kind(did)))),
            ("root", J::s(tcx.def_path_str(root))),
            ("file", J::s(file)),
            ("line", J::n(line)),
            ("nargs", J::n(body.arg_count)),
        ];
        if let Some(x) = expn_tag(tcx, body.span) {
            o.push(("x", J::s(x)));
        }
        if let Some(ck) = tcx.coroutine_kind(did) {
            o.push(("coroutine", J::s(format!("{:?}", ck))));
        }
        let locals: Vec<J> = body
            .local_decls
            .iter()
            .map(|d| {
                let mut lo = vec![("ty", J::s(format!("{}", d.ty))), ("h", ty_head(tcx, d.ty))];
                if d.is_user_variable() {
                    lo.push(("u", J::Bool(true)));
                }
                J::obj(lo)
            })
            .collect();
        o.push(("locals", J::arr(locals)));
        let vars: Vec<J> = body
            .var_debug_info
            .iter()
            .filter_map(|v| match &v.value {
                mir::VarDebugInfoContents::Place(p) => Some(J::obj(vec![
                    ("n", J::s(v.name.to_string())),
                    ("p", self.place(p)),
                ])),
                _ => None,
            })
            .collect();
        o.push(("vars", J::arr(vars)));
        let mut blocks = Vec::new();
        for (_bb, data) in body.basic_blocks.iter_enumerated() {
            let mut stmts = Vec::new();
            if self.detail {
                for s in &data.statements {
                    match &s.kind {
                        StatementKind::Assign(b) => {
                            let (p, rv) = &**b;
                            let mut so = vec![("p", self.place(p)), ("r", self.rvalue(rv))];
                            self.span_fields(s.source_info.span, &mut so);
                            stmts.push(J::obj(so));
                        }
                        StatementKind::SetDiscriminant { place, variant_index } => {
                            let mut so = vec![
                                ("sd", self.place(place)),
                                ("vi", J::n(variant_index.as_usize())),
                            ];
                            self.span_fields(s.source_info.span, &mut so);
                            stmts.push(J::obj(so));
                        }
                        _ => {}
                    }
                }
            }
            let mut bo = vec![("s", J::arr(stmts))];
            if let Some(t) = &data.terminator {
                bo.push(("t", self.terminator(t)));
            }
            if data.is_cleanup {
                bo.push(("c", J::Bool(true)));
            }
            blocks.push(J::obj(bo));
        }
        o.push(("blocks", J::arr(blocks)));
        J::obj(o)
    }
}

fn vis_str(tcx: TyCtxt<'_>, did: DefId) -> String {
    match tcx.visibility(did) {
        ty::Visibility::Public => "pub".into(),
        ty::Visibility::Restricted(m) => {
            let s = tcx.def_path_str(m);
            if s.is_empty() { "crate".into() } else { format!("in:{}", s) }
        }
    }
}

fn eval_const_item<'tcx>(tcx: TyCtxt<'tcx>, did: DefId) -> Option<(String, String)> {
    // Only closed (non-generic) constants.
    let generics = tcx.generics_of(did);
    if generics.count() != 0 {
        return None;
    }
    let ty = tcx.type_of(did).instantiate_identity().skip_norm_wip();
    let ty = tcx
        .try_normalize_erasing_regions(TypingEnv::post_analysis(tcx, did), ty::Unnormalized::new_wip(ty))
        .unwrap_or(ty);
    let is_scalar_ty =
        matches!(ty.kind(), ty::Bool | ty::Char | ty::Int(_) | ty::Uint(_) | ty::Float(_));
    if !is_scalar_ty {
        return None;
    }
    let r = std::panic::catch_unwind(std::panic::AssertUnwindSafe(|| tcx.const_eval_poly(did)));
    let val = r.ok()?.ok()?;
    let si = val.try_to_scalar_int()?;
    let bits = si.to_bits(si.size());
    let v = match ty.kind() {
        ty::Int(_) => {
            let shift = 128 - si.size().bits() as u32;
            format!("{}", ((bits << shift) as i128) >> shift)
        }
        ty::Float(_) => {
            if si.size().bits() == 64 {
                format!("{:?}", f64::from_bits(bits as u64))
            } else {
                format!("{:?}", f32::from_bits(bits as u32))
            }
        }
        _ => format!("{}", bits),
    };
    Some((format!("{}", ty), v))
}

fn typenum_usize<'tcx>(tcx: TyCtxt<'tcx>, ctx: DefId, t: Ty<'tcx>) -> Option<u64> {
    let env = TypingEnv::post_analysis(tcx, ctx);
    let t = tcx.try_normalize_erasing_regions(env, ty::Unnormalized::new_wip(t)).ok()?;
    let ty::Adt(adt, _) = t.kind() else { return None };
    if tcx.crate_name(adt.did().krate).as_str() != "typenum" {
        return None;
    }
    let unsigned = tcx
        .all_traits_including_private()
        .find(|d| tcx.crate_name(d.krate).as_str() == "typenum" && tcx.item_name(*d).as_str() == "Unsigned")?;
    let usize_const = tcx
        .associated_items(unsigned)
        .in_definition_order()
        .find(|i| i.opt_name().map(|n| n.as_str() == "USIZE").unwrap_or(false))?;
    let args = tcx.mk_args(&[t.into()]);
    let uv = mir::UnevaluatedConst { def: usize_const.def_id, args, promoted: None };
    let r = std::panic::catch_unwind(std::panic::AssertUnwindSafe(|| {
        tcx.const_eval_resolve(env, uv, rustc_span::DUMMY_SP)
    }));
    let v = r.ok()?.ok()?;
    Some(v.try_to_scalar_int()?.to_target_usize(tcx))
}

fn dump<'tcx>(tcx: TyCtxt<'tcx>) {
    use std::io::Write;
    let out_dir = std::env::var("IPA_FACTS_OUT").expect("IPA_FACTS_OUT");
    let crate_name = tcx.crate_name(rustc_hir::def_id::LOCAL_CRATE).to_string();
    let is_test = tcx.sess.opts.test;
    let tag = std::env::var("IPA_FACTS_TAG").unwrap_or_else(|_| "Q".into());
    let fname = format!(
        "{}/{}.{}{}.{}.jsonl",
        out_dir,
        crate_name,
        tag,
        if is_test { ".test" } else { "" },
        std::process::id()
    );
    let mut buf: Vec<u8> = Vec::with_capacity(64 << 20);

    let stored: Vec<Stored> = std::mem::take(&mut *BODIES.lock().unwrap());
    let no_detail: Vec<String> = std::env::var("IPA_FACTS_NODETAIL")
        .unwrap_or_else(|_| "cli::,test_fixture::,telemetry::".into())
        .split(',')
        .map(|s| s.to_string())
        .collect();
    let mut n_bodies = 0usize;
    let mut n_fail = 0usize;
    let mut failed: Vec<J> = Vec::new();
    for Stored(def, body) in &stored {
        let body: &'tcx Body<'tcx> = unsafe { std::mem::transmute::<&Body<'static>, &'tcx Body<'tcx>>(body) };
        let path = tcx.def_path_str(def.to_def_id());
        let detail = !no_detail.iter().any(|p| !p.is_empty() && path.starts_with(p.as_str()));
        let cx = Cx { tcx, env: TypingEnv::post_analysis(tcx, def.to_def_id()), detail, body: Cell::new(Some(body)) };
        let r = std::panic::catch_unwind(std::panic::AssertUnwindSafe(|| cx.body(*def, body)));
        match r {
            Ok(j) => {
                buf.extend_from_slice(b"{\"rec\":\"body\",\"b\":");
                j.write(&mut buf);
                buf.extend_from_slice(b"}\n");
                n_bodies += 1;
            }
            Err(_) => {
                n_fail += 1;
                failed.push(J::s(path));
            }
        }
    }

    // ---- item tables -------------------------------------------------------------------
    let mut adts = Vec::new();
    let mut fns = Vec::new();
    let mut consts = Vec::new();
    let mut impls = Vec::new();
    let mut aliases = Vec::new();
    for id in tcx.hir_crate_items(()).definitions() {
        let did = id.to_def_id();
        let kind = tcx.def_kind(did);
        match kind {
            DefKind::Struct | DefKind::Enum | DefKind::Union => {
                let adt = tcx.adt_def(did);
                let variants: Vec<J> = adt
                    .variants()
                    .iter_enumerated()
                    .map(|(vi, v)| {
                        let discr = if adt.is_enum() {
                            J::s(format!("{}", adt.discriminant_for_variant(tcx, vi).val))
                        } else {
                            J::Null
                        };
                        J::obj(vec![
                            ("name", J::s(v.name.to_string())),
                            ("discr", discr),
                            (
                                "fields",
                                J::arr(
                                    v.fields
                                        .iter()
                                        .map(|f| {
                                            J::obj(vec![
                                                ("name", J::s(f.name.to_string())),
                                                (
                                                    "ty",
                                                    J::s(format!(
                                                        "{}",
                                                        tcx.type_of(f.did).instantiate_identity().skip_norm_wip()
                                                    )),
                                                ),
                                                ("vis", J::s(vis_str(tcx, f.did))),
                                            ])
                                        })
                                        .collect(),
                                ),
                            ),
                        ])
                    })
                    .collect();
                let (file, line) = sp_line(tcx, tcx.def_span(did));
                adts.push(J::obj(vec![
                    ("path", J::s(tcx.def_path_str(did))),
                    ("kind", J::s(format!("{:?}", kind))),
                    ("vis", J::s(vis_str(tcx, did))),
                    ("file", J::s(file)),
                    ("line", J::n(line)),
                    ("variants", J::arr(variants)),
                ]));
            }
            DefKind::Fn | DefKind::AssocFn => {
                let sig = tcx.fn_sig(did).instantiate_identity().skip_norm_wip().skip_binder();
                let preds: Vec<J> = tcx
                    .predicates_of(did)
                    .predicates
                    .iter()
                    .map(|(p, _)| J::s(format!("{}", p)))
                    .collect();
                let (file, line) = sp_line(tcx, tcx.def_span(did));
                let mut o = vec![
                    ("path", J::s(tcx.def_path_str(did))),
                    ("vis", J::s(vis_str(tcx, did))),
                    ("file", J::s(file)),
                    ("line", J::n(line)),
                    ("inputs", J::arr(sig.inputs().iter().map(|t| J::s(format!("{}", t))).collect())),
                    ("output", J::s(format!("{}", sig.output()))),
                    ("preds", J::arr(preds)),
                    ("asyncness", J::Bool(tcx.asyncness(did).is_async())),
                ];
                if let Some(tr) = tcx.trait_of_assoc(did) {
                    o.push(("trait", J::s(tcx.def_path_str(tr))));
                }
                if let Some(imp) = tcx.impl_of_assoc(did) {
                    o.push((
                        "implself",
                        J::s(format!("{}", tcx.type_of(imp).instantiate_identity().skip_norm_wip())),
                    ));
                    if let Some(tr) = tcx.impl_opt_trait_ref(imp) {
                        o.push(("impltrait", J::s(format!("{}", tr.instantiate_identity().skip_norm_wip()))));
                    }
                }
                fns.push(J::obj(o));
            }
            DefKind::Const { .. } | DefKind::AssocConst { .. } | DefKind::Static { .. } => {
                let (file, line) = sp_line(tcx, tcx.def_span(did));
                let mut o = vec![
                    ("path", J::s(tcx.def_path_str(did))),
                    ("vis", J::s(vis_str(tcx, did))),
                    ("file", J::s(file)),
                    ("line", J::n(line)),
                ];
                if let Some(imp) = tcx.impl_of_assoc(did) {
                    o.push((
                        "implself",
                        J::s(format!("{}", tcx.type_of(imp).instantiate_identity().skip_norm_wip())),
                    ));
                    if let Some(tr) = tcx.impl_opt_trait_ref(imp) {
                        o.push(("impltrait", J::s(format!("{}", tr.instantiate_identity().skip_norm_wip()))));
                    }
                    let generic = tcx.generics_of(imp).count() != 0;
                    o.push(("generic", J::Bool(generic)));
                }
                o.push(("name", J::s(tcx.item_name(did).to_string())));
                if !matches!(kind, DefKind::Static { .. }) {
                    let has_value = match kind {
                        DefKind::AssocConst { .. } => tcx.associated_item(did).defaultness(tcx).has_value(),
                        _ => true,
                    };
                    if has_value {
                        if let Some((ty, v)) = eval_const_item(tcx, did) {
                            o.push(("ty", J::s(ty)));
                            o.push(("v", J::s(v)));
                        }
                    }
                }
                consts.push(J::obj(o));
            }
            DefKind::TyAlias => {
                let t = tcx.type_of(did).instantiate_identity().skip_norm_wip();
                aliases.push(J::obj(vec![
                    ("path", J::s(tcx.def_path_str(did))),
                    ("ty", J::s(format!("{}", t))),
                    ("vis", J::s(vis_str(tcx, did))),
                ]));
            }
            DefKind::Impl { .. } => {
                let st = tcx.type_of(did).instantiate_identity().skip_norm_wip();
                let (file, line) = sp_line(tcx, tcx.def_span(did));
                let mut o = vec![
                    ("self", J::s(format!("{}", st))),
                    ("selfhead", ty_head(tcx, st)),
                    ("file", J::s(file)),
                    ("line", J::n(line)),
                    ("generic", J::Bool(tcx.generics_of(did).count() != 0)),
                ];
                if let Some(tr) = tcx.impl_opt_trait_ref(did) {
                    let tr = tr.instantiate_identity().skip_norm_wip();
                    o.push(("trait", J::s(tcx.def_path_str(tr.def_id))));
                    o.push(("traitref", J::s(format!("{}", tr))));
                }
                let mut items = Vec::new();
                for it in tcx.associated_items(did).in_definition_order() {
                    let mut io = vec![
                        ("name", J::s(it.opt_name().map(|n| n.to_string()).unwrap_or_else(|| "<rpitit>".into()))),
                        ("kind", J::s(format!("{:?}", it.kind).split(['{', '(', ' ']).next().unwrap_or("").to_string())),
                    ];
                    if it.is_type() && it.opt_name().is_some() {
                        let t = tcx.type_of(it.def_id).instantiate_identity().skip_norm_wip();
                        io.push(("ty", J::s(format!("{}", t))));
                        if tcx.generics_of(did).count() == 0 {
                            if let Some(n) = typenum_usize(tcx, did, t) {
                                io.push(("usize", J::s(format!("{}", n))));
                            }
                        }
                    }
                    items.push(J::obj(io));
                }
                o.push(("items", J::arr(items)));
                impls.push(J::obj(o));
            }
            _ => {}
        }
    }
    for (name, list) in [("adt", adts), ("fn", fns), ("const", consts), ("impl", impls), ("alias", aliases)] {
        for j in list {
            buf.extend_from_slice(format!("{{\"rec\":\"{}\",\"b\":", name).as_bytes());
            j.write(&mut buf);
            buf.extend_from_slice(b"}\n");
        }
    }

    // meta record last: its presence proves the dump is complete
    let cfgs: Vec<J> = tcx
        .sess
        .opts
        .cg
        .target_feature
        .split(',')
        .filter(|s| !s.is_empty())
        .map(|s| J::s(s.to_string()))
        .collect();
    let features: Vec<J> = std::env::args()
        .collect::<Vec<_>>()
        .windows(2)
        .filter(|w| w[0] == "--cfg")
        .map(|w| J::s(w[1].clone()))
        .collect();
    let meta = J::obj(vec![
        ("crate", J::s(crate_name)),
        ("tag", J::s(tag)),
        ("test", J::Bool(is_test)),
        ("bodies", J::n(n_bodies)),
        ("failed", J::n(n_fail)),
        ("failed_paths", J::arr(failed)),
        ("cfg", J::arr(features)),
        ("tf", J::arr(cfgs)),
    ]);
    buf.extend_from_slice(b"{\"rec\":\"meta\",\"b\":");
    meta.write(&mut buf);
    buf.extend_from_slice(b"}\n");

    let mut f = std::fs::File::create(&fname).expect("create facts file");
    f.write_all(&buf).expect("write facts");
}
