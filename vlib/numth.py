"""CONST: number-theoretic certificates computed on compiler-evaluated constants."""


def is_prime(n):
    if n < 2:
        return False
    small = [2, 3, 5, 7, 11, 13, 17, 19, 23, 29, 31, 37]
    for p in small:
        if n % p == 0:
            return n == p
    d, s = n - 1, 0
    while d % 2 == 0:
        d //= 2
        s += 1
    # deterministic for n < 3.3e24 with these bases
    for a in small:
        x = pow(a, d, n)
        if x in (1, n - 1):
            continue
        for _ in range(s - 1):
            x = x * x % n
            if x == n - 1:
                break
        else:
            return False
    return True


def small_factor(n):
    for p in range(2, 100000):
        if n % p == 0:
            return p
    return None


# ---- GF(2)[x], polynomials as Python ints -------------------------------------------------
def pdeg(a):
    return a.bit_length() - 1


def pmod(a, m):
    dm = pdeg(m)
    while a and pdeg(a) >= dm:
        a ^= m << (pdeg(a) - dm)
    return a


def pmulmod(a, b, m):
    r = 0
    while b:
        if b & 1:
            r ^= a
        b >>= 1
        a <<= 1
        if pdeg(a) >= pdeg(m):
            a ^= m
    return pmod(r, m)


def pgcd(a, b):
    while b:
        a, b = b, pmod(a, b)
    return a


def pdivmod(a, b):
    q = 0
    db = pdeg(b)
    while a and pdeg(a) >= db:
        s = pdeg(a) - db
        q |= 1 << s
        a ^= b << s
    return q, a


def prime_factors(n):
    out, p = [], 2
    while p * p <= n:
        if n % p == 0:
            out.append(p)
            while n % p == 0:
                n //= p
        p += 1
    if n > 1:
        out.append(n)
    return out


def gf2_irreducible(f):
    """Rabin's irreducibility test over GF(2)."""
    n = pdeg(f)
    if n <= 0:
        return False
    if n == 1:
        return True

    def x_pow_2k(k):
        r = 2  # x
        r = pmod(r, f)
        for _ in range(k):
            r = pmulmod(r, r, f)
        return r
    for q in prime_factors(n):
        h = x_pow_2k(n // q) ^ pmod(2, f)
        if pgcd(f, h) != 1:
            return False
    return x_pow_2k(n) == pmod(2, f)


def gf2_factor_small(f, maxdeg=14):
    """Find a factor of degree <= maxdeg by trial division (for the report)."""
    for d in range(1, maxdeg + 1):
        for g in range(1 << d, 1 << (d + 1)):
            if pdivmod(f, g)[1] == 0:
                return g
    return None


def poly_str(f):
    terms = []
    for i in range(pdeg(f), -1, -1):
        if f >> i & 1:
            terms.append("1" if i == 0 else ("x" if i == 1 else "x^%d" % i))
    return "+".join(terms)
