"""WAKE: waker-discipline analyses over MIR facts.

WAKE-1 (Pending => registered): in every body returning `Poll<_>`, an explicit `Poll::Pending`
aggregate must not be reachable from the entry along a path on which no call has yet received the
task context / a waker (save_waker, Waiting::add, add_waker, an inner poll*, waker.clone()).  A block
whose terminator is such a call can be entered but not left by the search."""
import re
from . import facts as F

CTX_TY = re.compile(r"std::task::Context<|std::task::Waker|futures::task::Waker|core::task::")
NOT_REGISTERING = re.compile(r"(Context::<'a>::waker|Context::<'_>::waker|std::task::Context::waker|Waker::will_wake|Option::<T>::as_ref|Option::<T>::as_mut|Option::<T>::is_some|Option::<T>::is_none|Option::<T>::take|Waker::wake|Waker::wake_by_ref)$")


def returns_poll(body):
    return body.locals[0]["ty"].startswith("std::task::Poll<")


def registering_blocks(body):
    out = set()
    for bb, t in body.calls():
        fn = F.callee(t)[0] or ""
        if NOT_REGISTERING.search(fn):
            continue
        for a in t["args"]:
            l = F.op_local(a)
            if l is not None and CTX_TY.search(body.local_ty(l)):
                out.add(bb)
                break
        # `opt.map(|item| item.poll(cx))`: the closure that captured the task context runs exactly when opt is Some, so
        # the waker is handed over on the Some side of a later match on the result (not on the None side)
        if fn.endswith("Option::<T>::map") and len(t["args"]) == 2 and t.get("d") and len(t["d"]) == 1:
            cl = F.op_local(t["args"][1])
            captures_ctx = False
            for _, idx, d in body.defs().get(cl, []) if cl is not None else []:
                if idx != "t" and d.get("k") == "agg" and d.get("ak") == "closure":
                    captures_ctx = any(F.op_local(o) is not None and CTX_TY.search(body.local_ty(F.op_local(o))) for o in d["ops"])
            if captures_ctx:
                res = t["d"][0]
                for sb in body.live_blocks():
                    tt = body.term(sb)
                    if tt["k"] != "switch":
                        continue
                    dl = F.op_local(tt["o"])
                    for _, idx, d in body.defs().get(dl, []) if dl is not None else []:
                        if idx != "t" and d.get("k") == "disc" and d.get("p") and d["p"][0] == res:
                            out |= {tb for v, tb in tt.get("ts", []) if int(v) == 1}
    return out


def pending_sites(body):
    out = []
    for bb, idx, s in body.iter_assigns():
        r = s["r"]
        if r["k"] == "agg" and r.get("adt") == "std::task::Poll" and r["vn"] == "Pending":
            out.append((bb, idx))
    return out


def unregistered_pending(body):
    """[(bb, idx)] of Pending aggregates reachable without leaving any registering call."""
    reg = registering_blocks(body)
    seen = {0}
    work = [0]
    while work:
        b = work.pop()
        if b in reg:
            continue
        for s in body.succs(b):
            if s not in seen:
                seen.add(s)
                work.append(s)
    return [(bb, idx) for bb, idx in pending_sites(body) if bb in seen], reg
