"""Loader and helpers for the fact base produced by the ipa-facts driver."""
import json, re, collections


ALPHA_RENAME = False


def hash_name(n):
    h = 0
    for c in n:
        h = (h * 131 + ord(c)) % 1000003
    return h


class Body:
    __slots__ = ("d", "path", "root", "kind", "file", "line", "nargs", "locals", "blocks",
                 "vars", "x", "coroutine", "_succs", "_preds", "_defs", "_varnames")

    def __init__(self, d):
        self.d = d
        self.path = d["path"]
        self.root = d["root"]
        self.kind = d["kind"]
        self.file = d["file"]
        self.line = d["line"]
        self.nargs = d["nargs"]
        self.locals = d["locals"]
        self.blocks = d["blocks"]
        self.vars = d.get("vars", [])
        if ALPHA_RENAME:
            # metamorphic mode (tools/alpha_audit.py): every source-level variable name is replaced consistently, as a
            # wholesale rename of locals, parameters and captures would; no verdict may depend on such a name
            self.vars = [dict(v, n=v["n"] if v["n"] == "self" else "q%s_" % abs(hash_name(v["n"]))) for v in self.vars]
        self.x = d.get("x")
        self.coroutine = d.get("coroutine")
        self._succs = None
        self._preds = None
        self._defs = None
        self._varnames = None

    # ---- CFG -------------------------------------------------------------------------
    def term(self, bb):
        return self.blocks[bb].get("t") or {"k": "none"}

    def stmts(self, bb):
        return self.blocks[bb]["s"]

    def is_cleanup(self, bb):
        return bool(self.blocks[bb].get("c"))

    def succs(self, bb):
        """Normal-control-flow successors (unwind edges and imaginary false edges excluded)."""
        if self._succs is None:
            self._succs = [self._compute_succs(i) for i in range(len(self.blocks))]
        return self._succs[bb]

    def _compute_succs(self, bb):
        t = self.term(bb)
        k = t["k"]
        if k in ("goto", "fe", "fu", "drop", "assert"):
            return [t["t"]]
        if k == "call":
            return [t["t"]] if t["t"] is not None else []
        if k == "switch":
            out = []
            for _, b in t["ts"]:
                if b not in out:
                    out.append(b)
            if t["else"] not in out:
                out.append(t["else"])
            return out
        if k == "yield":
            return [t["t"]]
        return []

    def preds(self, bb):
        if self._preds is None:
            p = [[] for _ in self.blocks]
            for i in range(len(self.blocks)):
                for s in self.succs(i):
                    p[s].append(i)
            self._preds = p
        return self._preds[bb]

    def reachable(self, start=0, avoid=frozenset(), avoid_edges=frozenset()):
        """Blocks reachable from `start` along normal edges without entering a block in
        `avoid` (start itself is always included) or taking an edge in `avoid_edges`."""
        seen = {start}
        work = [start]
        while work:
            b = work.pop()
            for s in self.succs(b):
                if s in seen or s in avoid or (b, s) in avoid_edges:
                    continue
                seen.add(s)
                work.append(s)
        return seen

    def live_blocks(self):
        return self.reachable(0)

    def dominators(self):
        """dom[b] = set of blocks dominating b (over normal edges, from bb0)."""
        live = sorted(self.live_blocks())
        allb = set(live)
        dom = {b: set(allb) for b in live}
        dom[0] = {0}
        changed = True
        # reverse post-order would be faster; bodies are small enough
        while changed:
            changed = False
            for b in live:
                if b == 0:
                    continue
                ps = [p for p in self.preds(b) if p in allb]
                if not ps:
                    new = {b}
                else:
                    new = set.intersection(*(dom[p] for p in ps)) | {b}
                if new != dom[b]:
                    dom[b] = new
                    changed = True
        return dom

    # ---- statements / calls ------------------------------------------------------------
    def calls(self):
        for i, bl in enumerate(self.blocks):
            t = bl.get("t")
            if t and t["k"] == "call" and not bl.get("c"):
                yield i, t

    def iter_assigns(self):
        for i, bl in enumerate(self.blocks):
            if bl.get("c"):
                continue
            for j, s in enumerate(bl["s"]):
                if "p" in s:
                    yield i, j, s

    def defs(self):
        """local -> list of (bb, idx|'t', rvalue-or-terminator) whole-local assignments."""
        if self._defs is None:
            d = collections.defaultdict(list)
            for i, bl in enumerate(self.blocks):
                for j, s in enumerate(bl["s"]):
                    if "p" in s and len(s["p"]) == 1:
                        d[s["p"][0]].append((i, j, s["r"]))
                t = bl.get("t")
                if t and t["k"] == "call" and len(t["d"]) == 1:
                    d[t["d"][0]].append((i, "t", t))
                if t and t["k"] == "yield" and len(t["ra"]) == 1:
                    d[t["ra"][0]].append((i, "t", t))
            self._defs = d
        return self._defs

    def var_name(self, local):
        if self._varnames is None:
            self._varnames = {}
            for v in self.vars:
                if len(v["p"]) == 1:
                    self._varnames.setdefault(v["p"][0], v["n"])
        return self._varnames.get(local)

    def local_ty(self, l):
        return self.locals[l]["ty"]

    def local_head(self, l):
        return self.locals[l].get("h")


def callee(t):
    """(fn path, resolved path or None, info dict) of a call terminator; fn None if indirect."""
    f = t["f"]
    k = f.get("k")
    if k and "fn" in k:
        return k["fn"], k.get("res"), k
    return None, None, {}


def callee_names(t):
    fn, res, _ = callee(t)
    return [x for x in (fn, res) if x]


def call_matches(t, pat):
    """pat: compiled regex or string suffix; matched against fn and resolved path."""
    for n in callee_names(t):
        if isinstance(pat, str):
            if n == pat or n.endswith("::" + pat):
                return True
        elif pat.search(n):
            return True
    return False


def op_place(op):
    if "cp" in op:
        return op["cp"]
    if "mv" in op:
        return op["mv"]
    return None


def op_local(op):
    p = op_place(op)
    return p[0] if p else None


def op_const(op):
    return op.get("k")


def const_int(op):
    k = op.get("k")
    if k and "v" in k:
        return int(k["v"])
    return None


class Facts:
    def __init__(self, path):
        self.path = path
        self.bodies = {}
        self.by_root = collections.defaultdict(list)
        self.adts = {}
        self.fns = {}
        self.consts = {}
        self.const_list = []
        self.impls = []
        self.aliases = {}
        self.meta = None
        with open(path) as fh:
            for line in fh:
                r = json.loads(line)
                k, b = r["rec"], r["b"]
                if k == "body":
                    bd = Body(b)
                    self.bodies[bd.path] = bd
                    self.by_root[bd.root].append(bd)
                elif k == "adt":
                    self.adts[b["path"]] = b
                elif k == "fn":
                    self.fns[b["path"]] = b
                elif k == "const":
                    self.consts[b["path"]] = b
                    self.const_list.append(b)
                elif k == "impl":
                    self.impls.append(b)
                elif k == "alias":
                    self.aliases[b["path"]] = b
                elif k == "meta":
                    self.meta = b
        if self.meta is None:
            raise RuntimeError("fact file has no meta record (incomplete)")

    # -- lookup helpers ---------------------------------------------------------------
    def tree(self, root):
        """All bodies of the closure tree rooted at item `root` (exact path)."""
        return self.by_root.get(root, [])

    def find_roots(self, pat):
        rx = re.compile(pat)
        return sorted(r for r in self.by_root if rx.search(r))

    def const_val(self, path):
        c = self.consts.get(path)
        if c is None or "v" not in c:
            return None
        try:
            return int(c["v"])
        except ValueError:
            return float(c["v"])

    def is_test_path(self, p):
        return bool(re.search(r"(^|::|<|\s)(tests?|test_fixture|cli)(::|$)", p))

    def non_test_bodies(self):
        for b in self.bodies.values():
            if not self.is_test_path(b.path):
                yield b


# ---- pretty printer (development aid and violation reports) -----------------------------
def fmt_place(p):
    s = "_%d" % p[0]
    for e in p[1:]:
        if e == "*":
            s = "(*%s)" % s
        elif isinstance(e, list):
            if e[0] == "f":
                s += ".%s" % (e[2] if len(e) > 2 and e[2] else e[1])
            elif e[0] == "d":
                s = "(%s as %s)" % (s, e[2] if e[2] else e[1])
            elif e[0] == "i":
                s += "[_%d]" % e[1]
            elif e[0] == "ci":
                s += "[%s%d]" % ("-" if e[3] else "", e[1])
            elif e[0] == "sub":
                s += "[%d..%s%d]" % (e[1], "-" if e[3] else "", e[2])
        else:
            s += "." + str(e)
    return s


def short(n, k=2):
    return "::".join(n.split("::")[-k:]) if n else n


def fmt_op(o):
    if "cp" in o:
        return fmt_place(o["cp"])
    if "mv" in o:
        return "move " + fmt_place(o["mv"])
    if "k" in o:
        k = o["k"]
        if "fn" in k:
            return "fn:" + k["fn"]
        if "v" in k:
            return "%s_%s" % (k["v"], k.get("ty", ""))
        if "def" in k:
            return "const:" + k["def"]
        if "static" in k:
            return "static:" + k["static"]
        return "const(%s)" % k.get("s", k.get("ty"))
    return str(o)


def fmt_rv(r):
    k = r["k"]
    if k == "use":
        return fmt_op(r["o"])
    if k == "ref":
        return "&%s%s" % ("mut " if r["m"] == "mut" else ("fake " if r["m"] == "fake" else ""), fmt_place(r["p"]))
    if k == "bin":
        return "%s(%s, %s)" % (r["op"], fmt_op(r["a"]), fmt_op(r["b"]))
    if k == "un":
        return "%s(%s)" % (r["op"], fmt_op(r["a"]))
    if k == "cast":
        return "%s as %s [%s]" % (fmt_op(r["o"]), r["ty"], r["ck"])
    if k == "disc":
        return "discriminant(%s)" % fmt_place(r["p"])
    if k == "agg":
        ak = r["ak"]
        ops = ", ".join(fmt_op(o) for o in r["ops"])
        if ak == "adt":
            return "%s::%s{%s}" % (short(r["adt"], 1), r["vn"], ops)
        if ak in ("closure", "coroutine", "coroutine_closure"):
            return "%s[%s](%s)" % (ak, r["def"], ops)
        return "%s(%s)" % (ak, ops)
    if k == "cfd":
        return "deref_copy " + fmt_place(r["p"])
    if k == "rep":
        return "[%s; %s]" % (fmt_op(r["o"]), r["n"])
    if k == "raw":
        return "&raw " + fmt_place(r["p"])
    return k


def fmt_term(t):
    k = t["k"]
    if k == "call":
        fn, res, info = callee(t)
        name = fn or fmt_op(t["f"])
        extra = ""
        if res:
            extra = " [=> %s]" % res
        elif info.get("self"):
            extra = " [Self=%s]" % info["self"][:60]
        return "%s = %s(%s)%s -> bb%s" % (fmt_place(t["d"]), name, ", ".join(fmt_op(a) for a in t["args"]), extra, t["t"])
    if k == "switch":
        return "switchInt(%s) -> [%s, otherwise: bb%d]" % (fmt_op(t["o"]), ", ".join("%s: bb%d" % (v, b) for v, b in t["ts"]), t["else"])
    if k == "assert":
        return "assert(%s%s, %s(%s)) -> bb%d" % ("" if t["e"] else "!", fmt_op(t["c"]), t["ak"], ", ".join(fmt_op(o) for o in t["ops"]), t["t"])
    if k == "yield":
        return "%s = yield(%s) -> bb%d" % (fmt_place(t["ra"]), fmt_op(t["v"]), t["t"])
    if k == "drop":
        return "drop(%s) -> bb%d" % (fmt_place(t["p"]), t["t"])
    if k in ("goto", "fe", "fu"):
        return "%s -> bb%d" % (k, t["t"])
    return k


def dump_body(b, out=None, with_locals=True):
    import sys
    out = out or sys.stdout
    print("===== %s [%s%s] root=%s %s:%d nargs=%d" % (b.path, b.kind, " " + b.coroutine if b.coroutine else "", b.root, b.file, b.line, b.nargs), file=out)
    if with_locals:
        for i, l in enumerate(b.locals):
            nm = b.var_name(i)
            print("   let _%d: %s%s" % (i, l["ty"][:160], "   // " + nm if nm else ""), file=out)
        for v in b.vars:
            if len(v["p"]) > 1:
                print("   var %s = %s" % (v["n"], fmt_place(v["p"])), file=out)
    for i, bl in enumerate(b.blocks):
        print(" bb%d%s:" % (i, " (cleanup)" if bl.get("c") else ""), file=out)
        for s in bl["s"]:
            x = (" <%s>" % s["x"]) if "x" in s else ""
            if "p" in s:
                print("    %s = %s    // L%d%s" % (fmt_place(s["p"]), fmt_rv(s["r"]), s["ln"], x), file=out)
            elif "sd" in s:
                print("    set_discriminant(%s, %d)" % (fmt_place(s["sd"]), s["vi"]), file=out)
        t = bl.get("t")
        if t:
            x = (" <%s>" % t["x"]) if "x" in t else ""
            print("    %s    // L%d%s" % (fmt_term(t), t["ln"], x), file=out)
