"""RANGE: interval abstract interpretation over the integer MIR of small, loop-free functions.

Path-enumerating (no joins, so branch refinement is exact per path); values are integer
intervals over unbounded Python ints with a small symbolic tag so that the Mersenne fold
`(x & (2^k-1)) + (x >> k)` gets an exact transformer.  Nothing of the analysed crate is executed:
this walks the MIR facts."""
import re
from . import facts as F

INT_RE = re.compile(r"^(u|i)(8|16|32|64|128|size)$")


def ty_range(ty):
    m = INT_RE.match(ty)
    if m:
        bits = 64 if m.group(2) == "size" else int(m.group(2))
        if m.group(1) == "u":
            return 0, (1 << bits) - 1
        return -(1 << (bits - 1)), (1 << (bits - 1)) - 1
    if ty == "bool":
        return 0, 1
    return None


class Iv:
    """integer interval with optional symbolic expression"""
    __slots__ = ("lo", "hi", "ex")

    def __init__(self, lo, hi, ex=None):
        self.lo, self.hi, self.ex = lo, hi, ex

    def __repr__(self):
        def f(v):
            if abs(v) > 1 << 20:
                b = v.bit_length()
                d = v - (1 << (b - 1)) if v > 0 else v
                if v > 0 and v + 1 == 1 << b:
                    return "2^%d-1" % b
                if v > 0 and abs(d) < 1 << 20:
                    return "2^%d+%d" % (b - 1, d)
            return str(v)
        return "[%s, %s]" % (f(self.lo), f(self.hi))

    def const(self):
        return self.lo if self.lo == self.hi else None

    def within(self, lo, hi):
        return lo <= self.lo and self.hi <= hi


class Struct:
    __slots__ = ("fields", "adt")

    def __init__(self, fields, adt=None):
        self.fields, self.adt = fields, adt

    def __repr__(self):
        return "%s{%s}" % (self.adt or "", ", ".join("%s" % (v,) for v in self.fields))


class Ref:
    __slots__ = ("place",)

    def __init__(self, place):
        self.place = place


class FnVal:
    __slots__ = ("info",)

    def __init__(self, info):
        self.info = info


TOP = None  # unknown / untracked value


class NotAnalysable(Exception):
    pass


class PathResult:
    __slots__ = ("ret", "trace", "env")

    def __init__(self, ret, trace, env):
        self.ret, self.trace, self.env = ret, trace, env


class Interp:
    """
    hooks:
      on_agg(body, bb, idx, stmt, field_values, state)      -- every ADT aggregate
      on_assert(body, bb, term, kind, operand_values, state) -- every Overflow / bounds assert
      call_model(body, bb, term, argvals, state) -> value or NotImplemented
    """

    def __init__(self, facts, on_agg=None, on_assert=None, call_model=None, max_paths=4000, type_invariants=None):
        self.facts = facts
        self.on_agg = on_agg
        self.on_assert = on_assert
        self.call_model = call_model
        self.max_paths = max_paths
        self.type_invariants = type_invariants or {}  # adt path -> callable() -> Struct
        self.paths = 0

    # ---- value helpers ---------------------------------------------------------------
    def top_of(self, ty):
        r = ty_range(ty)
        if r:
            return Iv(r[0], r[1])
        inv = self.type_invariants.get(ty)
        if inv:
            return inv()
        m = re.match(r"^&(?:mut )?(.*)$", ty)
        if m and self.type_invariants.get(m.group(1)):
            return self.type_invariants[m.group(1)]()
        return TOP

    def read_place(self, st, place):
        v = st["env"].get(place[0], TOP)
        for e in place[1:]:
            if e == "*":
                if isinstance(v, Ref):
                    v = self.read_place(st, v.place)
                # a reference parameter whose pointee is modelled directly
                continue
            if isinstance(e, list) and e[0] == "f":
                if isinstance(v, Struct) and e[1] < len(v.fields):
                    v = v.fields[e[1]]
                else:
                    return TOP
            elif isinstance(e, list) and e[0] == "d":
                continue
            else:
                return TOP
        return v

    def write_place(self, st, place, val):
        if len(place) == 1:
            st["env"][place[0]] = val
            return
        if len(place) == 2 and isinstance(place[1], list) and place[1][0] == "f":
            cur = st["env"].get(place[0])
            if isinstance(cur, Struct):
                fs = list(cur.fields)
                while len(fs) <= place[1][1]:
                    fs.append(TOP)
                fs[place[1][1]] = val
                st["env"][place[0]] = Struct(fs, cur.adt)
                return
        # anything else: forget the base
        st["env"][place[0]] = TOP

    def operand(self, st, op, ty_hint=None):
        if "cp" in op or "mv" in op:
            p = op.get("cp") or op.get("mv")
            v = self.read_place(st, p)
            if v is TOP and len(p) == 1:
                v = self.top_of(st["body"].local_ty(p[0]))
            return v
        k = op.get("k")
        if k is not None:
            if "fn" in k:
                return FnVal(k)
            if "v" in k and ty_range(k.get("ty", "")):
                c = int(k["v"])
                return Iv(c, c, ("c", c))
            if k.get("ty") and ty_range(k["ty"]):
                r = ty_range(k["ty"])
                return Iv(r[0], r[1])
        return TOP

    # ---- arithmetic ------------------------------------------------------------------------
    @staticmethod
    def _sym(v):
        return v.ex if isinstance(v, Iv) else None

    def binop(self, op, a, b, res_ty):
        if not isinstance(a, Iv) or not isinstance(b, Iv):
            r = ty_range(res_ty) if res_ty else None
            if op in ("Eq", "Ne", "Lt", "Le", "Gt", "Ge"):
                return Iv(0, 1)
            return Iv(*r) if r else TOP
        base = op.replace("WithOverflow", "").replace("Unchecked", "")
        ex = None
        if base == "Add":
            lo, hi = a.lo + b.lo, a.hi + b.hi
            # exact transformer for the Mersenne fold (x & (2^k-1)) + (x >> k)
            for p, q in ((a, b), (b, a)):
                if p.ex and q.ex and p.ex[0] == "and" and q.ex[0] == "shr" and p.ex[1] == q.ex[1]:
                    m, k, x = p.ex[2], q.ex[2], p.ex[3]
                    if m == (1 << k) - 1 and x.lo >= 0:
                        qh, rh = x.hi >> k, x.hi & m
                        fmax = max(qh + rh, qh - 1 + m) if qh >= 1 else rh
                        ql, rl = x.lo >> k, x.lo & m
                        # minimum of the fold over [lo,hi]: conservative 0 unless same quotient
                        fmin = (ql + rl) if ql == qh else min(ql + rl, ql + 1)
                        lo, hi = max(lo, min(fmin, fmax)), min(hi, fmax)
        elif base == "Sub":
            lo, hi = a.lo - b.hi, a.hi - b.lo
        elif base == "Mul":
            c = [a.lo * b.lo, a.lo * b.hi, a.hi * b.lo, a.hi * b.hi]
            lo, hi = min(c), max(c)
        elif base == "Rem":
            if b.lo <= 0:
                lo, hi = (0, max(abs(b.lo), abs(b.hi)) - 1) if a.lo >= 0 else (-(max(abs(b.lo), abs(b.hi)) - 1), max(abs(b.lo), abs(b.hi)) - 1)
            elif a.lo >= 0:
                if a.hi < b.lo:
                    lo, hi = a.lo, a.hi
                else:
                    lo, hi = 0, min(a.hi, b.hi - 1)
            else:
                lo, hi = -(b.hi - 1), b.hi - 1
        elif base == "Div":
            if b.lo > 0 and a.lo >= 0:
                lo, hi = a.lo // b.hi, a.hi // b.lo
            else:
                r = ty_range(res_ty) or (None, None)
                return Iv(*r) if r[0] is not None else TOP
        elif base == "BitAnd":
            if a.lo >= 0 and b.lo >= 0:
                lo, hi = 0, min(a.hi, b.hi)
                cb, ca = b.const(), a.const()
                if cb is not None:
                    ex = ("and", id(a) if a.ex is None else a.ex, cb, a)
                    if a.hi <= cb and (cb & (cb + 1)) == 0:
                        lo, hi = a.lo, a.hi
                elif ca is not None:
                    ex = ("and", id(b) if b.ex is None else b.ex, ca, b)
                    if b.hi <= ca and (ca & (ca + 1)) == 0:
                        lo, hi = b.lo, b.hi
            else:
                r = ty_range(res_ty)
                lo, hi = r if r else (None, None)
        elif base in ("BitOr", "BitXor"):
            if a.lo >= 0 and b.lo >= 0:
                bits = max(a.hi.bit_length(), b.hi.bit_length())
                lo, hi = (max(a.lo, b.lo) if base == "BitOr" else 0), (1 << bits) - 1
            else:
                r = ty_range(res_ty)
                lo, hi = r if r else (None, None)
        elif base == "Shr":
            if b.lo >= 0 and a.lo >= 0:
                lo, hi = a.lo >> b.hi, a.hi >> b.lo
                if b.const() is not None:
                    ex = ("shr", id(a) if a.ex is None else a.ex, b.const(), a)
            else:
                r = ty_range(res_ty)
                lo, hi = r if r else (None, None)
        elif base == "Shl":
            if b.lo >= 0 and a.lo >= 0:
                lo, hi = a.lo << b.lo, a.hi << b.hi
            else:
                r = ty_range(res_ty)
                lo, hi = r if r else (None, None)
        elif base in ("Eq", "Ne", "Lt", "Le", "Gt", "Ge"):
            t = self.compare(base, a, b)
            ex = ("cmp", base, a, b)
            if t is True:
                return Iv(1, 1, ex)
            if t is False:
                return Iv(0, 0, ex)
            return Iv(0, 1, ex)
        else:
            r = ty_range(res_ty) if res_ty else None
            return Iv(*r) if r else TOP
        if lo is None:
            return TOP
        val = Iv(lo, hi, ex)
        if op.endswith("WithOverflow"):
            r = ty_range(res_ty) if res_ty else None
            ovf = Iv(0, 1)
            if r:
                ovf = Iv(0, 0) if val.within(*r) else (Iv(1, 1) if (val.lo > r[1] or val.hi < r[0]) else Iv(0, 1))
            return Struct([val, ovf], "tuple")
        # wrapping semantics for the plain (release-mode) operators: if it does not fit, lose it
        r = ty_range(res_ty) if res_ty else None
        if r and not val.within(*r) and base in ("Add", "Sub", "Mul", "Shl"):
            return Iv(r[0], r[1])
        return val

    @staticmethod
    def compare(op, a, b):
        if op == "Eq":
            if a.const() is not None and a.const() == b.const():
                return True
            if a.hi < b.lo or b.hi < a.lo:
                return False
            return None
        if op == "Ne":
            r = Interp.compare("Eq", a, b)
            return None if r is None else (not r)
        if op == "Lt":
            return True if a.hi < b.lo else (False if a.lo >= b.hi else None)
        if op == "Le":
            return True if a.hi <= b.lo else (False if a.lo > b.hi else None)
        if op == "Gt":
            return Interp.compare("Lt", b, a)
        if op == "Ge":
            return Interp.compare("Le", b, a)
        return None

    # ---- statement / terminator transfer -------------------------------------------------------
    def rvalue(self, st, r, dest_ty):
        k = r["k"]
        if k == "use":
            return self.operand(st, r["o"])
        if k == "cfd":
            return self.read_place(st, r["p"])
        if k == "ref" or k == "raw":
            return Ref(r["p"])
        if k == "bin":
            a, b = self.operand(st, r["a"]), self.operand(st, r["b"])
            res_ty = dest_ty
            m = re.match(r"^\((\w+), bool\)$", dest_ty or "")
            if m:
                res_ty = m.group(1)
            return self.binop(r["op"], a, b, res_ty)
        if k == "un":
            a = self.operand(st, r["a"])
            if r["op"] == "Not" and isinstance(a, Iv):
                if dest_ty == "bool":
                    if a.const() is not None:
                        return Iv(1 - a.const(), 1 - a.const(), ("not", a))
                    return Iv(0, 1, ("not", a))
                rr = ty_range(dest_ty or "")
                if rr and rr[0] == 0:
                    return Iv(rr[1] - a.hi, rr[1] - a.lo)
            if r["op"] == "Neg" and isinstance(a, Iv):
                return Iv(-a.hi, -a.lo)
            rr = ty_range(dest_ty or "")
            return Iv(*rr) if rr else TOP
        if k == "cast":
            v = self.operand(st, r["o"])
            rr = ty_range(r["ty"])
            if r["ck"] in ("IntToInt",) and isinstance(v, Iv) and rr:
                if v.within(*rr):
                    return Iv(v.lo, v.hi, v.ex)
                if rr[0] == 0 and v.lo >= 0:
                    # truncation of an unsigned value: low bits
                    return Iv(0, rr[1], ("trunc", v))
                return Iv(*rr)
            if isinstance(v, FnVal):
                return v
            return Iv(*rr) if rr else TOP
        if k == "agg":
            vals = [self.operand(st, o) for o in r["ops"]]
            return Struct(vals, r.get("adt") if r["ak"] == "adt" else r["ak"])
        if k == "disc":
            return TOP
        return TOP

    def refine(self, st, cond, truth):
        """cond: Iv with ('cmp', op, a, b) / ('not', x) expression; refine operand intervals *in place
        of the Iv objects' identity* is impossible (immutable), so we refine by symbol: every env
        entry that is the same Iv object as a or b is replaced."""
        if not isinstance(cond, Iv) or cond.ex is None:
            return True
        if cond.ex[0] == "not":
            return self.refine(st, cond.ex[1], not truth)
        if cond.ex[0] != "cmp":
            return True
        _, op, a, b = cond.ex
        if not truth:
            op = {"Eq": "Ne", "Ne": "Eq", "Lt": "Ge", "Le": "Gt", "Gt": "Le", "Ge": "Lt"}[op]
        na, nb = self._refine_pair(op, a, b)
        if na is None or nb is None:
            return False  # infeasible edge
        self._replace(st, a, na)
        self._replace(st, b, nb)
        return True

    @staticmethod
    def _refine_pair(op, a, b):
        alo, ahi, blo, bhi = a.lo, a.hi, b.lo, b.hi
        if op == "Eq":
            lo, hi = max(alo, blo), min(ahi, bhi)
            alo = blo = lo
            ahi = bhi = hi
        elif op == "Ne":
            if b.const() is not None:
                if alo == b.const():
                    alo += 1
                if ahi == b.const():
                    ahi -= 1
            if a.const() is not None:
                if blo == a.const():
                    blo += 1
                if bhi == a.const():
                    bhi -= 1
        elif op == "Lt":
            ahi = min(ahi, bhi - 1)
            blo = max(blo, alo + 1)
        elif op == "Le":
            ahi = min(ahi, bhi)
            blo = max(blo, alo)
        elif op == "Gt":
            alo = max(alo, blo + 1)
            bhi = min(bhi, ahi - 1)
        elif op == "Ge":
            alo = max(alo, blo)
            bhi = min(bhi, ahi)
        na = Iv(alo, ahi, a.ex) if alo <= ahi else None
        nb = Iv(blo, bhi, b.ex) if blo <= bhi else None
        return na, nb

    def _replace(self, st, old, new):
        if new.lo == old.lo and new.hi == old.hi:
            return

        def rep(v):
            if v is old:
                return new
            if isinstance(v, Struct):
                fs = [rep(f) for f in v.fields]
                if any(x is not y for x, y in zip(fs, v.fields)):
                    return Struct(fs, v.adt)
            return v
        env = st["env"]
        for k in list(env.keys()):
            env[k] = rep(env[k])

    def call(self, st, bb, t):
        body = st["body"]
        argvals = [self.operand(st, a) for a in t["args"]]
        # resolve the callee, possibly through a fn-pointer local
        f = t["f"]
        info = None
        if "k" in f and "fn" in f["k"]:
            info = f["k"]
        else:
            v = self.operand(st, f)
            if isinstance(v, FnVal):
                info = v.info
        dest_ty = body.local_ty(t["d"][0]) if len(t["d"]) == 1 else None
        if self.call_model:
            r = self.call_model(body, bb, t, info, argvals, st)
            if r is not NotImplemented:
                return r
        name = (info or {}).get("fn", "")
        res = (info or {}).get("res", "")
        if name in ("std::convert::From::from", "std::convert::Into::into") and len(argvals) == 1:
            a = argvals[0]
            rr = ty_range(dest_ty or "")
            if isinstance(a, Iv) and rr and a.within(*rr):
                return Iv(a.lo, a.hi, a.ex)
        return self.top_of(dest_ty) if dest_ty else TOP

    # ---- driver --------------------------------------------------------------------------------
    def run(self, body, arg_values=None):
        """Enumerate all paths of `body`; returns list of PathResult for paths reaching `ret`."""
        if self._has_cycle(body):
            raise NotAnalysable("loop in " + body.path)
        env = {}
        for i in range(1, body.nargs + 1):
            if arg_values and i - 1 < len(arg_values) and arg_values[i - 1] is not None:
                env[i] = arg_values[i - 1]
            else:
                env[i] = self.top_of(body.local_ty(i))
        results = []
        self.paths = 0
        self._walk(body, 0, {"env": env, "body": body, "trace": []}, results)
        return results

    def _has_cycle(self, body):
        color = {}

        def dfs(b):
            color[b] = 1
            for s in body.succs(b):
                c = color.get(s, 0)
                if c == 1:
                    return True
                if c == 0 and dfs(s):
                    return True
            color[b] = 2
            return False
        import sys
        sys.setrecursionlimit(10000)
        return dfs(0)

    def _walk(self, body, bb, st, results):
        while True:
            st["trace"].append(bb)
            for idx, s in enumerate(body.stmts(bb)):
                if "p" not in s:
                    continue
                p = s["p"]
                dest_ty = body.local_ty(p[0]) if len(p) == 1 else None
                v = self.rvalue(st, s["r"], dest_ty)
                if s["r"]["k"] == "agg" and s["r"]["ak"] == "adt" and self.on_agg:
                    self.on_agg(body, bb, idx, s, v.fields, st)
                self.write_place(st, p, v)
            t = body.term(bb)
            k = t["k"]
            if k in ("goto", "fe", "fu", "drop"):
                bb = t["t"]
                continue
            if k == "ret":
                self.paths += 1
                results.append(PathResult(st["env"].get(0, TOP), list(st["trace"]), st["env"]))
                return
            if k == "call":
                v = self.call(st, bb, t)
                if t["t"] is None:
                    return  # diverging call (panic)
                self.write_place(st, t["d"], v)
                bb = t["t"]
                continue
            if k == "assert":
                c = self.operand(st, t["c"])
                if self.on_assert:
                    self.on_assert(body, bb, t, [self.operand(st, o) for o in t["ops"]], c, st)
                # continue on the passing edge, refining
                if isinstance(c, Iv):
                    want = 1 if t["e"] else 0
                    if c.const() is not None and c.const() != want:
                        return  # always panics on this path
                    if not self.refine(st, c, bool(want)):
                        return
                # after a passing overflow assert the value fits its type
                if t["ak"].startswith("Overflow"):
                    cp = F.op_place(t["c"])
                    if cp and len(cp) == 2:
                        tup = st["env"].get(cp[0])
                        if isinstance(tup, Struct) and isinstance(tup.fields[0], Iv):
                            m = re.match(r"^\((\w+), bool\)$", body.local_ty(cp[0]))
                            rr = ty_range(m.group(1)) if m else None
                            if rr:
                                v0 = tup.fields[0]
                                nv = Iv(max(v0.lo, rr[0]), min(v0.hi, rr[1]), v0.ex)
                                if nv.lo > nv.hi:
                                    return
                                st["env"][cp[0]] = Struct([nv, Iv(0, 0)], tup.adt)
                bb = t["t"]
                continue
            if k == "switch":
                c = self.operand(st, t["o"])
                targets = [(int(v), b) for v, b in t["ts"]]
                taken_vals = [v for v, _ in targets]
                edges = []
                for v, b in targets:
                    edges.append((v, b))
                edges.append((None, t["else"]))
                for v, b in edges:
                    if self.paths > self.max_paths:
                        raise NotAnalysable("too many paths in " + body.path)
                    st2 = {"env": dict(st["env"]), "body": body, "trace": list(st["trace"])}
                    if isinstance(c, Iv):
                        if v is not None:
                            if not (c.lo <= v <= c.hi):
                                continue
                            # bool / integer equality refinement
                            if c.ex and c.ex[0] in ("cmp", "not") and v in (0, 1):
                                if not self.refine(st2, c, bool(v)):
                                    continue
                            else:
                                self._replace(st2, c, Iv(v, v, c.ex))
                        else:
                            rest = [x for x in range(c.lo, min(c.hi, c.lo + 4) + 1) if x not in taken_vals] if c.hi - c.lo < 4 else [0]
                            if not rest:
                                continue
                            if c.ex and c.ex[0] in ("cmp", "not") and taken_vals == [0]:
                                if not self.refine(st2, c, True):
                                    continue
                    self._walk(body, b, st2, results)
                return
            if k in ("unreachable", "resume", "terminate", "none"):
                return
            raise NotAnalysable("terminator %s in %s" % (k, body.path))
