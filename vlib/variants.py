"""VARIANT: forward dataflow over MIR facts tracking, for every place of enum type, the set of
variants it may hold; refined on `switchInt(discriminant(place))` edges.  Worklist fixpoint with
join = union, so loops (await desugarings) are fine.  Abstract values:

  frozenset of sym ids   a value that is one of these "symbolic objects"
  Ref(place)             a reference to a place of the same body
  None                   unknown

Each sym has static info (adt, origin site, payload per (variant, field)) and a refinable variant
set stored in the per-block environment under key 'S'."""
import collections
from . import facts as F

STD_ENUMS = {
    "std::option::Option": ["None", "Some"],
    "std::result::Result": ["Ok", "Err"],
    "std::task::Poll": ["Ready", "Pending"],
    "std::ops::ControlFlow": ["Continue", "Break"],
    "std::collections::hash_map::Entry": ["Occupied", "Vacant"],
}


class Ref:
    __slots__ = ("place",)

    def __init__(self, place):
        self.place = tuple(tuple(e) if isinstance(e, list) else e for e in place)

    def __eq__(self, o):
        return isinstance(o, Ref) and o.place == self.place

    def __hash__(self):
        return hash(("ref", self.place))


class Disc:
    """value of `discriminant(place)`"""
    __slots__ = ("place",)

    def __init__(self, place):
        self.place = tuple(tuple(e) if isinstance(e, list) else e for e in place)

    def __eq__(self, o):
        return isinstance(o, Disc) and o.place == self.place

    def __hash__(self):
        return hash(("disc", self.place))


class Sym:
    __slots__ = ("id", "adt", "origin", "payload", "all_variants", "meta")

    def __init__(self, id, adt, origin, all_variants):
        self.id, self.adt, self.origin, self.all_variants = id, adt, origin, all_variants
        self.payload = {}   # (variant, field) -> value
        self.meta = {}


class VariantFlow:
    def __init__(self, facts, body, call_model=None, on_assign_over=None):
        self.facts = facts
        self.body = body
        self.syms = {}
        self.call_model = call_model
        self.on_assign_over = on_assign_over
        self.in_env = {}
        self.events = []   # (kind, bb, data) emitted by hooks / models

    # ---- adt helpers -----------------------------------------------------------------------
    def variants_of(self, adt):
        if adt in STD_ENUMS:
            return list(range(len(STD_ENUMS[adt])))
        a = self.facts.adts.get(adt)
        if a:
            return list(range(len(a["variants"])))
        return None

    def discr_to_variant(self, adt, val):
        if adt in STD_ENUMS:
            return val if 0 <= val < len(STD_ENUMS[adt]) else None
        a = self.facts.adts.get(adt)
        if not a:
            return None
        for i, v in enumerate(a["variants"]):
            if v.get("discr") is not None and int(v["discr"]) == val:
                return i
        return None

    def variant_name(self, adt, vi):
        if adt in STD_ENUMS:
            return STD_ENUMS[adt][vi]
        a = self.facts.adts.get(adt)
        return a["variants"][vi]["name"] if a else str(vi)

    def new_sym(self, env, key, adt, variants=None, origin=None):
        allv = self.variants_of(adt)
        if key not in self.syms:
            self.syms[key] = Sym(key, adt, origin, allv)
        vs = frozenset(variants if variants is not None else (allv if allv is not None else []))
        env["S"][key] = env["S"].get(key, frozenset()) | vs
        return frozenset([key])

    # ---- environment -----------------------------------------------------------------------
    @staticmethod
    def copy_env(env):
        return {"L": dict(env["L"]), "S": dict(env["S"])}

    @staticmethod
    def join_val(a, b):
        if a is None or b is None:
            return None
        if isinstance(a, frozenset) and isinstance(b, frozenset):
            return a | b
        if a == b:
            return a
        return None

    def join_env(self, a, b):
        """returns (joined, changed_wrt_a)"""
        changed = False
        L = dict(a["L"])
        for k in set(a["L"]) | set(b["L"]):
            if k in a["L"] and k in b["L"]:
                j = self.join_val(a["L"][k], b["L"][k])
            else:
                # unassigned (bottom) on one path: MIR guarantees assignment before use
                j = a["L"][k] if k in a["L"] else b["L"][k]
            if k not in a["L"] or j != a["L"][k]:
                changed = True
            L[k] = j
        S = dict(a["S"])
        for k, v in b["S"].items():
            nv = S.get(k, frozenset()) | v
            if nv != S.get(k):
                S[k] = nv
                changed = True
        return {"L": L, "S": S}, changed

    # ---- place access ------------------------------------------------------------------------
    def read(self, env, place, depth=0):
        if depth > 8:
            return None
        v = env["L"].get(place[0])
        cur_variant = None
        for e in place[1:]:
            if v is None:
                return None
            if e == "*":
                if isinstance(v, Ref):
                    v = self.read(env, v.place, depth + 1)
                continue
            if isinstance(e, (list, tuple)) and e[0] == "d":
                cur_variant = e[1]
                continue
            if isinstance(e, (list, tuple)) and e[0] == "f":
                if not isinstance(v, frozenset):
                    return None
                out = frozenset()
                ok = True
                for s in v:
                    sym = self.syms[s]
                    vi = cur_variant if cur_variant is not None else 0
                    pv = sym.payload.get((vi, e[1]))
                    if pv is None:
                        ok = False
                        break
                    if isinstance(pv, frozenset):
                        out |= pv
                    else:
                        if len(v) == 1:
                            out = pv
                        else:
                            ok = False
                        break
                v = out if ok else None
                cur_variant = None
                continue
            return None
        return v

    def resolve_syms(self, env, place):
        v = self.read(env, list(place))
        if isinstance(v, Ref):
            v = self.read(env, list(v.place))
        return v if isinstance(v, frozenset) else None

    def variants_at(self, env, val):
        """union of the current variant sets of a frozenset-of-syms value"""
        if not isinstance(val, frozenset):
            return None
        out = set()
        for s in val:
            out |= env["S"].get(s, frozenset())
        return out

    def operand(self, env, op):
        p = F.op_place(op)
        if p is not None:
            return self.read(env, p)
        n = F.const_int(op) if isinstance(op, dict) else None
        if n is not None:
            return ("int", n)           # small integer constants are tracked so that rank comparisons can be decided
        return None

    # ---- transfer -------------------------------------------------------------------------------
    def rvalue(self, env, bb, idx, r):
        k = r["k"]
        if k == "use":
            return self.operand(env, r["o"])
        if k == "cfd":
            return self.read(env, r["p"])
        if k in ("ref", "raw"):
            return Ref(r["p"])
        if k == "disc":
            return Disc(r["p"])
        if k == "cast":
            return self.operand(env, r["o"])
        if k == "bin":
            a, b = self.operand(env, r["a"]), self.operand(env, r["b"])
            if isinstance(a, tuple) and isinstance(b, tuple) and a[:1] == ("int",) and b[:1] == ("int",):
                x, y = a[1], b[1]
                op = r["op"].replace("WithOverflow", "")
                tbl = {"Lt": int(x < y), "Le": int(x <= y), "Gt": int(x > y), "Ge": int(x >= y), "Eq": int(x == y), "Ne": int(x != y),
                       "Add": x + y, "Sub": x - y}
                if op in tbl and not r["op"].endswith("WithOverflow"):
                    return ("int", tbl[op])
            return None
        if k == "un" and r.get("op") == "Not":
            a = self.operand(env, r["a"])
            if isinstance(a, tuple) and a[:1] == ("int",) and a[1] in (0, 1):
                return ("int", 1 - a[1])
            if isinstance(a, tuple) and a[:1] == ("istest",):
                return ("istest", a[1], a[2], not a[3])
            return None
        if k == "agg":
            if r["ak"] == "adt":
                adt, vi = r["adt"], r["vi"]
                key = ("agg", bb, idx)
                val = self.new_sym(env, key, adt, [vi], origin=("agg", bb, idx))
                sym = self.syms[key]
                for i, o in enumerate(r["ops"]):
                    pv = self.operand(env, o)
                    old = sym.payload.get((vi, i), "unset")
                    sym.payload[(vi, i)] = pv if old == "unset" else self.join_val(old, pv)
                sym.meta["ops"] = r["ops"]
                return val
            if r["ak"] == "tuple":
                key = ("tup", bb, idx)
                if key not in self.syms:
                    self.syms[key] = Sym(key, "tuple", ("tup", bb, idx), [0])
                env["S"][key] = frozenset([0])
                sym = self.syms[key]
                for i, o in enumerate(r["ops"]):
                    pv = self.operand(env, o)
                    old = sym.payload.get((0, i), "unset")
                    sym.payload[(0, i)] = pv if old == "unset" else self.join_val(old, pv)
                return frozenset([key])
        return None

    def assign(self, env, bb, idx, place, val):
        if len(place) == 1:
            old = env["L"].get(place[0])
            if self.on_assign_over and isinstance(old, frozenset) and isinstance(val, frozenset) and old != val:
                self.on_assign_over(self, env, bb, idx, place[0], old, val)
            env["L"][place[0]] = val
        elif len(place) == 2 and place[1] == "*":
            # write through a reference: strong update if the target is a single place
            tgt = env["L"].get(place[0])
            if isinstance(tgt, Ref) and len(tgt.place) == 1:
                self.assign(env, bb, idx, list(tgt.place), val)
        # other projections: field writes are not tracked

    def default_call(self, env, bb, t):
        fn, res, info = F.callee(t)
        if fn == "std::ops::Try::branch" and t["args"]:
            a = self.operand(env, t["args"][0])
            if isinstance(a, frozenset) and all(self.syms[s].adt in ("std::result::Result", "std::option::Option") for s in a):
                vs = set()
                key = ("branch", bb)
                pay = None
                for s in a:
                    sym = self.syms[s]
                    is_res = sym.adt == "std::result::Result"
                    for v in env["S"].get(s, frozenset()):
                        good = (v == 0) if is_res else (v == 1)
                        vs.add(0 if good else 1)
                        if good:
                            pv = sym.payload.get((v, 0))
                            pay = pv if pay is None else self.join_val(pay, pv)
                val = self.new_sym(env, key, "std::ops::ControlFlow", vs, origin=("call", bb))
                if pay is not None:
                    self.syms[key].payload[(0, 0)] = pay
                self.syms[key].meta["branch_of"] = a
                return val
        if fn in ("std::option::Option::<T>::is_some", "std::option::Option::<T>::is_none", "std::result::Result::<T, E>::is_ok", "std::result::Result::<T, E>::is_err") and t["args"]:
            a = self.operand(env, t["args"][0])
            if isinstance(a, Ref):
                a = self.read(env, list(a.place))
            if isinstance(a, frozenset) and len(a) == 1:
                key = next(iter(a))
                adt = self.syms[key].adt
                if adt in ("std::option::Option", "std::result::Result"):
                    yes = {"is_some": 1, "is_none": 0, "is_ok": 0, "is_err": 1}[fn.rsplit("::", 1)[1]]
                    return ("istest", key, yes, True)          # true <=> the value is variant `yes`
        if fn == "std::ops::FromResidual::from_residual" and len(t["d"]) == 1:
            head = self.body.local_head(t["d"][0])
            if head == "std::option::Option":
                return self.new_sym(env, ("residual", bb), head, [0], origin=("call", bb))
            if head == "std::result::Result":
                return self.new_sym(env, ("residual", bb), head, [1], origin=("call", bb))
        # unknown call: fresh value of the destination's type
        d = t["d"]
        if len(d) == 1:
            head = self.body.local_head(d[0])
            if head and self.variants_of(head) is not None and not self.body.local_ty(d[0]).startswith("&"):
                return self.new_sym(env, ("call", bb), head, None, origin=("call", bb))
        return None

    def edge_envs(self, env, bb):
        """Yield (successor, env) pairs after executing block bb on env."""
        body = self.body
        env = self.copy_env(env)
        for idx, s in enumerate(body.stmts(bb)):
            if "p" in s:
                val = self.rvalue(env, bb, idx, s["r"])
                self.assign(env, bb, idx, s["p"], val)
        t = body.term(bb)
        k = t["k"]
        if k == "call":
            val = NotImplemented
            if self.call_model:
                val = self.call_model(self, env, bb, t)
            if val is NotImplemented:
                val = self.default_call(env, bb, t)
            if t["t"] is None:
                return
            self.assign(env, bb, "t", t["d"], val)
            yield t["t"], env
            return
        if k == "switch":
            cond = self.operand(env, t["o"])
            if isinstance(cond, tuple) and cond[:1] == ("int",):
                tgt = next((b for v, b in t["ts"] if int(v) == cond[1]), t["else"])
                yield tgt, env
                return
            if isinstance(cond, tuple) and cond[:1] == ("istest",):
                _, key, yes, pol = cond
                cur = env["S"].get(key, frozenset())
                for v, b in [(int(v), b) for v, b in t["ts"]] + [(None, t["else"])]:
                    truth = (v == 1) if v is not None else (1 not in [int(x) for x, _ in t["ts"]])
                    is_yes = truth == pol
                    keep = (cur & frozenset([yes])) if is_yes else (cur - frozenset([yes]))
                    if not keep:
                        continue
                    e2 = self.copy_env(env)
                    e2["S"][key] = keep
                    yield b, e2
                return
            listed = []
            for v, b in t["ts"]:
                listed.append(int(v))
            for v, b in [(int(v), b) for v, b in t["ts"]] + [(None, t["else"])]:
                e2 = self.copy_env(env)
                if isinstance(cond, Disc):
                    syms = self.resolve_syms(e2, cond.place)
                    if syms is not None:
                        keep = set()
                        for s in syms:
                            sym = self.syms[s]
                            cur = e2["S"].get(s, frozenset())
                            if v is not None:
                                vi = self.discr_to_variant(sym.adt, v)
                                allowed = {vi} if vi is not None else set()
                            else:
                                excl = {self.discr_to_variant(sym.adt, x) for x in listed}
                                allowed = set(cur) - excl
                            if cur & allowed:
                                keep.add(s)
                        if not keep:
                            continue   # infeasible edge
                        if len(keep) == 1:
                            s = next(iter(keep))
                            sym = self.syms[s]
                            cur = e2["S"].get(s, frozenset())
                            if v is not None:
                                vi = self.discr_to_variant(sym.adt, v)
                                e2["S"][s] = cur & frozenset([vi])
                            else:
                                excl = {self.discr_to_variant(sym.adt, x) for x in listed}
                                e2["S"][s] = frozenset(set(cur) - excl)
                            # `x?`: refining the ControlFlow refines the Result/Option it came from
                            bo = sym.meta.get("branch_of")
                            if bo and len(bo) == 1 and sym.adt == "std::ops::ControlFlow":
                                u = next(iter(bo))
                                usym = self.syms[u]
                                is_res = usym.adt == "std::result::Result"
                                good = 0 if is_res else 1
                                allowed = set()
                                if 0 in e2["S"][s]:
                                    allowed.add(good)
                                if 1 in e2["S"][s]:
                                    allowed.add(1 - good)
                                e2["S"][u] = e2["S"].get(u, frozenset()) & frozenset(allowed)
                        # narrow the holder if it is a plain local
                        if len(cond.place) == 1 and isinstance(e2["L"].get(cond.place[0]), frozenset):
                            e2["L"][cond.place[0]] = frozenset(keep)
                yield b, e2
            return
        if k == "yield":
            env["L"][t["ra"][0]] = None
            yield t["t"], env
            return
        for s in body.succs(bb):
            yield s, env

    def run(self, entry_env=None):
        env0 = entry_env or {"L": {}, "S": {}}
        self.in_env = {0: env0}
        work = collections.deque([0])
        iters = 0
        while work:
            bb = work.popleft()
            iters += 1
            if iters > 20000:
                raise RuntimeError("variant flow did not converge in " + self.body.path)
            for succ, e in self.edge_envs(self.in_env[bb], bb):
                if succ not in self.in_env:
                    self.in_env[succ] = e
                    work.append(succ)
                else:
                    j, changed = self.join_env(self.in_env[succ], e)
                    if changed:
                        self.in_env[succ] = j
                        if succ not in work:
                            work.append(succ)
        return self

    def env_before_term(self, bb):
        """environment just before the terminator of bb (statements applied)"""
        if bb not in self.in_env:
            return None
        env = self.copy_env(self.in_env[bb])
        for idx, s in enumerate(self.body.stmts(bb)):
            if "p" in s:
                val = self.rvalue(env, bb, idx, s["r"])
                self.assign(env, bb, idx, s["p"], val)
        return env

    def return_values(self):
        """list of (bb, value of _0, env) at every reachable `ret`"""
        out = []
        for bb in sorted(self.in_env):
            if self.body.term(bb)["k"] == "ret":
                env = self.env_before_term(bb)
                out.append((bb, env["L"].get(0), env))
        return out
