"""Def-use / provenance / ordering helpers over one MIR body (and its closure tree)."""
import re
from . import facts as F


def origins(body, op_or_local, max_depth=40, through_calls=()):
    """Backward provenance of an operand (or local index): set of terminal descriptors
       ('call', bb)      result of the call terminating bb
       ('agg', bb, idx)  aggregate statement
       ('const', repr)   constant
       ('arg', n)        n-th parameter (1-based local)
       ('bin', bb, idx)  arithmetic / comparison
       ('field', local, proj...) read of a projected place whose base has several defs
       ('upvar', i)      captured variable i of a closure (field of _1)
    Walks use/copy/move/ref/deref/cast chains.  Calls whose callee matches an entry of
    `through_calls` (regex on callee name) are looked through to their first argument."""
    seen = set()
    out = set()
    defs = body.defs()

    def visit_place(p, depth):
        if depth > max_depth:
            out.add(("deep",))
            return
        l = p[0]
        proj = tuple(tuple(e) if isinstance(e, list) else e for e in p[1:])
        # closure upvars: _1.N or (*_1).N in closures
        if l == 1 and body.kind == "Closure":
            for e in proj:
                if isinstance(e, tuple) and e[0] == "f":
                    out.add(("upvar", e[1]))
                    return
        key = (l, proj)
        if key in seen:
            return
        seen.add(key)
        if 1 <= l <= body.nargs:
            ds = defs.get(l, [])
            if not ds:
                out.add(("arg", l) + tuple(e for e in proj if e != "*"))
                return
        ds = defs.get(l, [])
        if not ds:
            out.add(("arg", l) if 1 <= l <= body.nargs else ("undef", l))
            return
        for (bb, idx, d) in ds:
            if idx == "t":
                if d["k"] == "call":
                    names = F.callee_names(d)
                    if any(re.search(rx, n) for rx in through_calls for n in names) and d["args"]:
                        visit_op(d["args"][0], depth + 1)
                    else:
                        out.add(("call", bb))
                else:
                    out.add(("yield", bb))
                continue
            k = d["k"]
            if k in ("use",):
                visit_op(d["o"], depth + 1)
            elif k in ("ref", "raw", "cfd"):
                visit_place(d["p"], depth + 1)
            elif k == "cast":
                visit_op(d["o"], depth + 1)
            elif k == "agg":
                out.add(("agg", bb, idx))
            elif k in ("bin", "un"):
                out.add(("bin", bb, idx))
            elif k == "disc":
                out.add(("disc", bb, idx))
            else:
                out.add((k, bb, idx))

    def visit_op(op, depth):
        p = F.op_place(op)
        if p is not None:
            visit_place(p, depth)
        elif "k" in op:
            k = op["k"]
            out.add(("const", k.get("v", k.get("fn", k.get("def", k.get("s", k.get("ty")))))))

    if isinstance(op_or_local, int):
        visit_place([op_or_local], 0)
    elif isinstance(op_or_local, list):
        visit_place(op_or_local, 0)
    else:
        visit_op(op_or_local, 0)
    return out


def forward_locals(body, start_locals, through_calls=None):
    """Forward taint within one body: the set of locals that (transitively) receive a value
    derived from `start_locals` through use/ref/cast/aggregate/field statements and, for
    calls, from any argument to the destination (conservative).  `through_calls`: None = all
    calls propagate; otherwise regex list of callee names that propagate."""
    tainted = set(start_locals)
    changed = True
    while changed:
        changed = False
        for i, bl in enumerate(body.blocks):
            for s in bl["s"]:
                if "p" not in s:
                    continue
                r = s["r"]
                srcs = []
                k = r["k"]
                if k in ("use", "cast", "rep", "wub"):
                    srcs = [r["o"]]
                elif k in ("ref", "raw", "cfd", "disc"):
                    srcs = [{"cp": r["p"]}]
                elif k == "bin":
                    srcs = [r["a"], r["b"]]
                elif k == "un":
                    srcs = [r["a"]]
                elif k == "agg":
                    srcs = r["ops"]
                if any(F.op_local(o) in tainted for o in srcs):
                    if s["p"][0] not in tainted:
                        tainted.add(s["p"][0])
                        changed = True
            t = bl.get("t")
            if t and t["k"] == "call":
                ok = True
                if through_calls is not None:
                    ok = any(re.search(rx, n) for rx in through_calls for n in F.callee_names(t))
                if ok and any(F.op_local(a) in tainted for a in t["args"]):
                    if t["d"][0] not in tainted:
                        tainted.add(t["d"][0])
                        changed = True
    return tainted


def find_calls(body, pat):
    """[(bb, term)] of calls whose callee (declared or resolved) matches regex/suffix pat."""
    rx = re.compile(pat) if isinstance(pat, str) and not pat.isidentifier() else pat
    return [(bb, t) for bb, t in body.calls() if F.call_matches(t, rx)]


def ret_blocks(body):
    return [i for i in body.live_blocks() if body.term(i)["k"] == "ret"]


def dominates(dom, a, b):
    return a in dom.get(b, ())


def reach_avoiding(body, start_bbs, barrier_bbs, cut_edges=frozenset()):
    """Blocks reachable from the *successors* of start blocks without entering a barrier block
    and without taking a cut edge."""
    seen = set()
    work = []
    for s in start_bbs:
        for n in body.succs(s):
            if (s, n) in cut_edges or n in barrier_bbs:
                continue
            if n not in seen:
                seen.add(n)
                work.append(n)
    while work:
        b = work.pop()
        for n in body.succs(b):
            if n in seen or n in barrier_bbs or (b, n) in cut_edges:
                continue
            seen.add(n)
            work.append(n)
    return seen


def await_ready_block(body, fut_local, max_hops=12):
    """Settlement point of an awaited future: follow `fut_local` through moves and
    IntoFuture::into_future / Pin::new_unchecked to the `Future::poll` call of the await
    desugaring; return (poll_bb, ready_bb, output_local) or None.  ready_bb is the successor of
    the Poll discriminant switch on the Ready(0) edge."""
    cur = {fut_local}
    defs_all = body.blocks
    for _ in range(max_hops):
        nxt = set(cur)
        for i, bl in enumerate(defs_all):
            for s in bl["s"]:
                if "p" in s and len(s["p"]) == 1:
                    r = s["r"]
                    src = None
                    if r["k"] == "use":
                        src = F.op_local(r["o"])
                    elif r["k"] in ("ref", "raw", "cfd"):
                        src = r["p"][0]
                    if src in cur:
                        nxt.add(s["p"][0])
            t = bl.get("t")
            if t and t["k"] == "call":
                names = F.callee_names(t)
                if any(n.endswith("IntoFuture::into_future") or n.endswith("Pin::<Ptr>::new_unchecked") or n.endswith("Pin::<Ptr>::new") or n.endswith("as_mut") for n in names):
                    if t["args"] and F.op_local(t["args"][0]) in cur:
                        nxt.add(t["d"][0])
                if any(n.endswith("Future::poll") for n in names) and t["args"] and F.op_local(t["args"][0]) in cur and t.get("x", "").startswith("d:Await"):
                    poll_bb = i
                    res = t["d"][0]
                    sw = t["t"]
                    # find the switch on discriminant(res)
                    for _h in range(4):
                        tt = body.term(sw)
                        if tt["k"] == "switch":
                            for v, b in tt["ts"]:
                                if int(v) == 0:
                                    # skip the false edge
                                    rb = b
                                    while body.term(rb)["k"] in ("fe", "goto") and not body.stmts(rb):
                                        rb = body.term(rb)["t"]
                                    out_local = None
                                    for s in body.stmts(rb):
                                        if "p" in s and s["r"]["k"] == "use":
                                            pl = F.op_place(s["r"]["o"])
                                            if pl and pl[0] == res:
                                                out_local = s["p"][0]
                                    return poll_bb, rb, out_local
                            return None
                        if tt["k"] in ("goto", "drop", "fe"):
                            sw = tt["t"]
                        else:
                            return None
        if nxt == cur:
            break
        cur = nxt
    return None
