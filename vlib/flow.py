"""Def-use / provenance / ordering helpers over one MIR body (and its closure tree)."""
import re
from . import facts as F


def origins(body, op_or_local, max_depth=40, through_calls=()):
    """Backward provenance of an operand (or local index): set of terminal descriptors
       ('call', bb)      result of the call terminating bb
       ('agg', bb, idx)  aggregate statement
       ('const', repr)   constant
       ('arg', n)        n-th parameter (1-based local)
       ('bin', bb, idx)  arithmetic / comparison
       ('field', local, proj...) read of a projected place whose base has several defs
       ('upvar', i)      captured variable i of a closure (field of _1)
    Walks use/copy/move/ref/deref/cast chains.  Calls whose callee matches an entry of
    `through_calls` (regex on callee name) are looked through to their first argument."""
    seen = set()
    out = set()
    defs = body.defs()

    def visit_place(p, depth):
        if depth > max_depth:
            out.add(("deep",))
            return
        l = p[0]
        proj = tuple(tuple(e) if isinstance(e, list) else e for e in p[1:])
        # closure upvars: _1.N or (*_1).N in closures
        if l == 1 and body.kind == "Closure":
            for e in proj:
                if isinstance(e, tuple) and e[0] == "f":
                    out.add(("upvar", e[1]))
                    return
        key = (l, proj)
        if key in seen:
            return
        seen.add(key)
        if 1 <= l <= body.nargs:
            ds = defs.get(l, [])
            if not ds:
                out.add(("arg", l) + tuple(e for e in proj if e != "*"))
                return
        ds = defs.get(l, [])
        if not ds:
            out.add(("arg", l) if 1 <= l <= body.nargs else ("undef", l))
            return
        for (bb, idx, d) in ds:
            if idx == "t":
                if d["k"] == "call":
                    names = F.callee_names(d)
                    if any(re.search(rx, n) for rx in through_calls for n in names) and d["args"]:
                        visit_op(d["args"][0], depth + 1)
                    else:
                        out.add(("call", bb))
                else:
                    out.add(("yield", bb))
                continue
            k = d["k"]
            if k in ("use",):
                visit_op(d["o"], depth + 1)
            elif k in ("ref", "raw", "cfd"):
                visit_place(d["p"], depth + 1)
            elif k == "cast":
                visit_op(d["o"], depth + 1)
            elif k == "agg":
                out.add(("agg", bb, idx))
            elif k in ("bin", "un"):
                out.add(("bin", bb, idx))
            elif k == "disc":
                out.add(("disc", bb, idx))
            else:
                out.add((k, bb, idx))

    def visit_op(op, depth):
        p = F.op_place(op)
        if p is not None:
            visit_place(p, depth)
        elif "k" in op:
            k = op["k"]
            out.add(("const", k.get("v", k.get("fn", k.get("def", k.get("s", k.get("ty")))))))

    if isinstance(op_or_local, int):
        visit_place([op_or_local], 0)
    elif isinstance(op_or_local, list):
        visit_place(op_or_local, 0)
    else:
        visit_op(op_or_local, 0)
    return out


def forward_locals(body, start_locals, through_calls=None):
    """Forward taint within one body: the set of locals that (transitively) receive a value
    derived from `start_locals` through use/ref/cast/aggregate/field statements and, for
    calls, from any argument to the destination (conservative).  `through_calls`: None = all
    calls propagate; otherwise regex list of callee names that propagate."""
    tainted = set(start_locals)
    changed = True
    while changed:
        changed = False
        for i, bl in enumerate(body.blocks):
            for s in bl["s"]:
                if "p" not in s:
                    continue
                r = s["r"]
                srcs = []
                k = r["k"]
                if k in ("use", "cast", "rep", "wub"):
                    srcs = [r["o"]]
                elif k in ("ref", "raw", "cfd", "disc"):
                    srcs = [{"cp": r["p"]}]
                elif k == "bin":
                    srcs = [r["a"], r["b"]]
                elif k == "un":
                    srcs = [r["a"]]
                elif k == "agg":
                    srcs = r["ops"]
                if any(F.op_local(o) in tainted for o in srcs):
                    if s["p"][0] not in tainted:
                        tainted.add(s["p"][0])
                        changed = True
            t = bl.get("t")
            if t and t["k"] == "call":
                ok = True
                if through_calls is not None:
                    ok = any(re.search(rx, n) for rx in through_calls for n in F.callee_names(t))
                if ok and any(F.op_local(a) in tainted for a in t["args"]):
                    if t["d"][0] not in tainted:
                        tainted.add(t["d"][0])
                        changed = True
    return tainted


def find_calls(body, pat):
    """[(bb, term)] of calls whose callee (declared or resolved) matches regex/suffix pat."""
    rx = re.compile(pat) if isinstance(pat, str) and not pat.isidentifier() else pat
    return [(bb, t) for bb, t in body.calls() if F.call_matches(t, rx)]


def ret_blocks(body):
    return [i for i in body.live_blocks() if body.term(i)["k"] == "ret"]


def dominates(dom, a, b):
    return a in dom.get(b, ())


def reach_avoiding(body, start_bbs, barrier_bbs, cut_edges=frozenset()):
    """Blocks reachable from the *successors* of start blocks without entering a barrier block
    and without taking a cut edge."""
    seen = set()
    work = []
    for s in start_bbs:
        for n in body.succs(s):
            if (s, n) in cut_edges or n in barrier_bbs:
                continue
            if n not in seen:
                seen.add(n)
                work.append(n)
    while work:
        b = work.pop()
        for n in body.succs(b):
            if n in seen or n in barrier_bbs or (b, n) in cut_edges:
                continue
            seen.add(n)
            work.append(n)
    return seen


JOINERS = re.compile(r"(future::(try_join\d?|join\d?|try_join_all|join_all|select|try_select)|parallel_join|SeqJoin::try_join)$")
PASS_THROUGH = re.compile(r"(Instrument::instrument|Instrument::in_current_span|FutureExt::(boxed|map|then|fuse|inspect|map_err|map_ok)|TryFutureExt::(map_err|map_ok|and_then|into_future|err_into)|std::boxed::Box::<T>::pin|assert_send)$")


def await_ready_block(body, fut_local, max_hops=12):
    """Settlement point of an awaited future: follow `fut_local` through moves and
    IntoFuture::into_future / Pin::new_unchecked to the `Future::poll` call of the await
    desugaring; return (poll_bb, ready_bb, output_local) or None.  ready_bb is the successor of
    the Poll discriminant switch on the Ready(0) edge."""
    cur = {fut_local}
    defs_all = body.blocks
    for _ in range(max_hops):
        nxt = set(cur)
        for i, bl in enumerate(defs_all):
            for s in bl["s"]:
                if "p" in s and len(s["p"]) == 1:
                    r = s["r"]
                    src = None
                    if r["k"] == "use":
                        src = F.op_local(r["o"])
                    elif r["k"] in ("ref", "raw", "cfd"):
                        src = r["p"][0]
                    if src in cur:
                        nxt.add(s["p"][0])
            t = bl.get("t")
            if t and t["k"] == "call":
                names = F.callee_names(t)
                if any(n.endswith("IntoFuture::into_future") or n.endswith("Pin::<Ptr>::new_unchecked") or n.endswith("Pin::<Ptr>::new") or n.endswith("as_mut") or PASS_THROUGH.search(n) for n in names):
                    if t["args"] and F.op_local(t["args"][0]) in cur:
                        nxt.add(t["d"][0])
                if any(JOINERS.search(n) for n in names) and any(F.op_local(a) in cur for a in t["args"]):
                    nxt.add(t["d"][0])
                if any(n.endswith("Future::poll") for n in names) and t["args"] and F.op_local(t["args"][0]) in cur and t.get("x", "").startswith("d:Await"):
                    poll_bb = i
                    res = t["d"][0]
                    sw = t["t"]
                    # find the switch on discriminant(res)
                    for _h in range(4):
                        tt = body.term(sw)
                        if tt["k"] == "switch":
                            for v, b in tt["ts"]:
                                if int(v) == 0:
                                    # skip the false edge
                                    rb = b
                                    while body.term(rb)["k"] in ("fe", "goto") and not body.stmts(rb):
                                        rb = body.term(rb)["t"]
                                    out_local = None
                                    for s in body.stmts(rb):
                                        if "p" in s and s["r"]["k"] == "use":
                                            pl = F.op_place(s["r"]["o"])
                                            if pl and pl[0] == res:
                                                out_local = s["p"][0]
                                    return poll_bb, rb, out_local
                            return None
                        if tt["k"] in ("goto", "drop", "fe"):
                            sw = tt["t"]
                        else:
                            return None
        if nxt == cur:
            break
        cur = nxt
    return None


CLOSURE_DEFS = False   # when set, closure / coroutine aggregates carry their DefPath: ('agg', (kind, def), captures)
CONST_WITH_GA = False     # when True, unevaluated associated consts keep their generic arguments (T::Size::USIZE of which T?)


def expr_of(body, op, depth=0, max_depth=30):
    """Symbolic expression tree of an operand by walking single-definition temporaries:
       ('const', int|str) | ('arg', n, proj...) | ('place', local, proj-names...) |
       ('bin', op, a, b) | ('un', op, a) | ('cast', ty, a) | ('call', fn, [args...]) | ('agg', adt/variant, [ops]) | ('?',)
    Field projections are rendered with their names.  WithOverflow forms and `.0` of their
    result are folded into the plain operator."""
    if depth > max_depth:
        return ("?",)
    if isinstance(op, dict) and "k" in op and ("cp" not in op and "mv" not in op):
        k = op["k"]
        if "v" in k:
            try:
                return ("const", int(k["v"]))
            except ValueError:
                return ("const", k["v"])
        if "fn" in k:
            return ("fn", k["fn"])
        if "static" in k:
            return ("static", k["static"])
        if CONST_WITH_GA and k.get("def") and k.get("dga"):
            return ("const", k["def"] + "<" + ", ".join(map(str, k["dga"])) + ">")
        return ("const", k.get("def", k.get("s", k.get("ty"))))
    p = F.op_place(op) if isinstance(op, dict) else op
    if p is None:
        return ("?",)
    return _expr_place(body, p, depth, max_depth)


def _proj_names(proj):
    out = []
    for e in proj:
        if e == "*":
            continue
        if isinstance(e, (list, tuple)):
            if e[0] == "f":
                out.append(e[2] if len(e) > 2 and e[2] else e[1])
            elif e[0] == "d":
                out.append("as:" + str(e[2] if e[2] else e[1]))
            else:
                out.append(e[0])
    return tuple(out)


def _expr_place(body, p, depth, max_depth):
    l, proj = p[0], p[1:]
    names = _proj_names(proj)
    ds = body.defs().get(l, [])
    if 1 <= l <= body.nargs and not ds:
        if l == 1 and body.kind == "Closure" and names and isinstance(names[0], int):
            un = upvar_name(body, names[0])
            if un:
                return ("upvar", un) + names[1:]
        return ("arg", l) + names
    if len(ds) != 1:
        return ("place", l) + names
    bb, idx, d = ds[0]
    if idx == "t":
        if d["k"] == "call":
            fn, res, info = F.callee(d)
            if fn is None:
                # call through a fn-pointer local
                fe = expr_of(body, d["f"], depth + 1, max_depth)
                fn = fe[1] if fe[0] == "fn" else "<indirect>"
            e = ("call", fn, tuple(expr_of(body, a, depth + 1, max_depth) for a in d["args"]))
            return e if not names else ("proj", e) + names
        return ("yield",)
    k = d["k"]
    if k == "use":
        e = expr_of(body, d["o"], depth + 1, max_depth)
    elif k in ("ref", "raw", "cfd"):
        e = _expr_place(body, d["p"], depth + 1, max_depth)
    elif k == "cast":
        e = ("cast", d["ty"], expr_of(body, d["o"], depth + 1, max_depth))
    elif k == "bin":
        opn = d["op"].replace("WithOverflow", "").replace("Unchecked", "")
        e = ("bin", opn, expr_of(body, d["a"], depth + 1, max_depth), expr_of(body, d["b"], depth + 1, max_depth))
        if d["op"].endswith("WithOverflow") and names[:1] == (0,):
            names = names[1:]
    elif k == "un":
        e = ("un", d["op"], expr_of(body, d["a"], depth + 1, max_depth))
    elif k == "agg":
        tag = (d.get("adt"), d.get("vn")) if d["ak"] == "adt" else d["ak"]
        if CLOSURE_DEFS and d["ak"] in ("closure", "coroutine", "coroutine_closure") and d.get("def"):
            tag = (d["ak"], d["def"])
        e = ("agg", tag, tuple(expr_of(body, o, depth + 1, max_depth) for o in d["ops"]))
    elif k == "disc":
        e = ("disc", _expr_place(body, d["p"], depth + 1, max_depth))
    else:
        e = (k,)
    if names:
        if e[0] in ("arg", "place"):
            return e + names
        return ("proj", e) + names
    return e


def strip_casts(e):
    while e and e[0] == "cast":
        e = e[2]
    return e


def field_names_in(e):
    """all field names mentioned anywhere in an expression tree"""
    out = set()
    if not isinstance(e, tuple):
        return out
    if e[0] in ("arg", "place", "upvar"):
        out |= {x for x in e[2:] if isinstance(x, str)}
    elif e[0] == "proj":
        out |= {x for x in e[2:] if isinstance(x, str)}
        out |= field_names_in(e[1])
    for x in e[1:]:
        if isinstance(x, tuple):
            if x and isinstance(x[0], str):
                out |= field_names_in(x)
            else:
                for y in x:
                    out |= field_names_in(y)
    return out


def switch_edges(body, bb):
    """(zero_target, nonzero_target) of a boolean switchInt terminating bb, else None"""
    t = body.term(bb)
    if t["k"] != "switch":
        return None
    z = [b for v, b in t["ts"] if int(v) == 0]
    if len(t["ts"]) == 1 and z:
        return z[0], t["else"]
    return None


def next_switch(body, bb, limit=6):
    """follow goto/drop chains from bb to the first switchInt block"""
    for _ in range(limit):
        t = body.term(bb)
        if t["k"] == "switch":
            return bb
        if t["k"] in ("goto", "drop", "fe", "fu"):
            bb = t["t"]
        else:
            return None
    return None


def field_writes(facts, field_name, owner_pat):
    """Census of writes to a named field: direct assignments `x.field = ..` and `&mut x.field`
    borrows, in non-test bodies.  Returns [(body, bb, idx, kind, stmt)].  `owner_pat`: regex the
    base local's type must match (the struct that owns the field)."""
    rx = re.compile(owner_pat)
    out = []
    for b in facts.non_test_bodies():
        if not b.file.startswith("ipa-core/"):
            continue
        for bb, idx, s in b.iter_assigns():
            p = s["p"]
            last = p[-1] if len(p) > 1 else None
            if isinstance(last, list) and last[0] == "f" and len(last) > 2 and last[2] == field_name and rx.search(b.local_ty(p[0])):
                out.append((b, bb, idx, "assign", s))
            r = s["r"]
            if r["k"] in ("ref", "raw") and r.get("m", "mut") == "mut" or r["k"] == "raw":
                q = r["p"]
                lastq = q[-1] if len(q) > 1 else None
                if isinstance(lastq, list) and lastq[0] == "f" and len(lastq) > 2 and lastq[2] == field_name and rx.search(b.local_ty(q[0])):
                    out.append((b, bb, idx, "borrow_mut", s))
    return out


def upvar_name(body, idx):
    """source name of captured variable `idx` of a closure / coroutine body (from debug info)"""
    for v in body.vars:
        p = v["p"]
        if p and p[0] == 1:
            fs = [e for e in p[1:] if isinstance(e, list) and e[0] == "f"]
            if fs and fs[0][1] == idx and len(fs) == 1:
                return v["n"]
    return None


def local_aliases_fwd(body, local, rounds=8):
    """locals that receive the value of `local` by plain moves/copies (forward)"""
    out = {local}
    for _ in range(rounds):
        n = len(out)
        for bb, idx, s in body.iter_assigns():
            if s["r"]["k"] == "use" and len(s["p"]) == 1 and F.op_local(s["r"]["o"]) in out and len(F.op_place(s["r"]["o"])) == 1:
                out.add(s["p"][0])
        if len(out) == n:
            break
    return out


def question_mark(body, value_local):
    """If `value_local` (a Result/Option) goes through `?`: returns (branch_bb, continue_bb, break_bb)
    where continue_bb / break_bb are the first blocks on the Continue / Break edge."""
    al = local_aliases_fwd(body, value_local)
    for bb, t in body.calls():
        fn = F.callee(t)[0] or ""
        if fn == "std::ops::Try::branch" and t["args"] and F.op_local(t["args"][0]) in al:
            sw = next_switch(body, t["t"]) if t["t"] is not None else None
            if sw is None:
                continue
            tt = body.term(sw)
            targets = {int(v): b for v, b in tt["ts"]}
            cont = targets.get(0)
            brk = targets.get(1, tt["else"])
            return bb, cont, brk
    # the long form of `?`: `match value { Ok(v) => .., Err(e) => return Err(..) }` - a switch on the discriminant of the
    # Result itself whose Err arm cannot reach an Ok return and does build an Err
    oks = set(ok_return_blocks(body))
    for sw in sorted(body.live_blocks()):
        tt = body.term(sw)
        if tt["k"] != "switch":
            continue
        dl = F.op_local(tt["o"])
        for _, idx, d in body.defs().get(dl, []) if dl is not None else []:
            if idx == "t" or d.get("k") != "disc" or not d.get("p"):
                continue
            pl = d["p"]
            if pl[0] not in al or any(isinstance(e, list) and e[0] == "f" for e in pl[1:]) or not (body.local_ty(pl[0]) or "").lstrip("&mut ").startswith("std::result::Result<"):
                continue
            targets = {int(v): b for v, b in tt["ts"]}
            cont, brk = targets.get(0), targets.get(1, tt["else"])
            if cont is None or brk is None or cont == brk:
                continue
            r = body.reachable(brk)
            builds_err = any("r" in st and st["r"]["k"] == "agg" and st["r"].get("adt") == "std::result::Result" and st["r"].get("vn") == "Err" for x in r for st in body.stmts(x))
            if not (oks & r) and builds_err:
                return sw, cont, brk
    return None


def settled(body, call_bb):
    """Settlement of the future created by the call at call_bb (directly awaited):
    {'ready': bb, 'out': local, 'q': (branch_bb, cont_bb, break_bb) or None} or None if it is never polled
    through an await in this body."""
    t = body.term(call_bb)
    if t["k"] != "call" or len(t["d"]) != 1:
        return None
    aw = await_ready_block(body, t["d"][0])
    if aw is None:
        return None
    poll_bb, ready_bb, out_local = aw
    q = question_mark(body, out_local) if out_local is not None else None
    return {"poll": poll_bb, "ready": ready_bb, "out": out_local, "q": q}


def ok_return_blocks(body):
    """blocks that assign `_0 = Result::Ok{..}` (or Ok via aggregate moved to _0)"""
    out = []
    for bb, idx, s in body.iter_assigns():
        r = s["r"]
        if s["p"] == [0] and r["k"] == "agg" and r.get("adt") == "std::result::Result" and r.get("vn") == "Ok":
            out.append(bb)
    return out


def edge_guards(b):
    """[(target_bb, fact)] facts established on switch edges; fact = (op, lhs_expr, rhs_expr) normalised to hold on the edge"""
    NEG = {"Lt": "Ge", "Le": "Gt", "Gt": "Le", "Ge": "Lt", "Eq": "Ne", "Ne": "Eq"}
    out = []
    for bb in sorted(b.live_blocks()):
        t = b.term(bb)
        if t["k"] != "switch":
            continue
        ed = switch_edges(b, bb)
        if ed is None:
            continue
        e = expr_of(b, t["o"])
        neg = False
        while e[0] == "un" and e[1] == "Not":
            neg, e = not neg, e[2]
        z, nz = ed if not neg else (ed[1], ed[0])
        if e[0] == "bin" and e[1] in NEG:
            out.append((nz, (e[1], strip_casts(e[2]), strip_casts(e[3]))))
            out.append((z, (NEG[e[1]], strip_casts(e[2]), strip_casts(e[3]))))
        elif e[0] in ("call", "proj", "arg", "place", "upvar"):
            out.append((nz, ("true", e, None)))
            out.append((z, ("false", e, None)))
    # `match a.cmp(&b) { Less => .., Equal => .., Greater => .. }`: each arm is a comparison fact
    for bb in sorted(b.live_blocks()):
        t = b.term(bb)
        if t["k"] != "switch":
            continue
        e = expr_of(b, t["o"], max_depth=10)
        if e[0] != "disc":
            continue
        v = strip_casts(e[1])
        if not (v[0] == "call" and re.search(r"cmp::Ord::cmp$|Ord::cmp$", v[1]) and len(v[2]) == 2):
            continue
        a_, b_ = strip_casts(v[2][0]), strip_casts(v[2][1])
        names = {255: "Lt", -1: "Lt", 0: "Eq", 1: "Gt"}
        listed = {}
        for val, tgt in t["ts"]:
            listed.setdefault(names.get(int(val)), tgt)
        for op, tgt in listed.items():
            if op:
                out.append((tgt, (op, a_, b_)))
        rest = [op for op in ("Lt", "Eq", "Gt") if op not in listed]
        if t.get("else") is not None and b.term(t["else"])["k"] != "unreachable":
            if len(rest) == 1:
                out.append((t["else"], (rest[0], a_, b_)))
            elif sorted(rest) == ["Eq", "Gt"]:
                out.append((t["else"], ("Ge", a_, b_)))
            elif sorted(rest) == ["Eq", "Lt"]:
                out.append((t["else"], ("Le", a_, b_)))
            elif sorted(rest) == ["Gt", "Lt"]:
                out.append((t["else"], ("Ne", a_, b_)))
    return out


def holds(b, dom, bb, pred):
    """some edge fact satisfying pred dominates bb"""
    return any(dominates(dom, tgt, bb) and pred(f) for tgt, f in edge_guards(b))


def fold(e):
    """constant-fold integer arithmetic in an expression tree (best effort)"""
    if not isinstance(e, tuple) or not e:
        return e
    if e[0] == "cast":
        inner = fold(e[2])
        if inner[0] == "const" and isinstance(inner[1], int) and re.match(r"^[ui](8|16|32|64|128|size)$", str(e[1])):
            return inner
        return ("cast", e[1], inner)
    if e[0] == "bin":
        a, b = fold(e[2]), fold(e[3])
        if a[0] == "const" and b[0] == "const" and isinstance(a[1], int) and isinstance(b[1], int):
            op = e[1].replace("WithOverflow", "").replace("Unchecked", "")
            try:
                v = {"Add": a[1] + b[1], "Sub": a[1] - b[1], "Mul": a[1] * b[1], "Div": a[1] // b[1] if b[1] else None,
                     "Rem": a[1] % b[1] if b[1] else None, "Shl": a[1] << b[1], "Shr": a[1] >> b[1]}.get(op)
            except Exception:
                v = None
            if v is not None:
                return ("const", v)
        return ("bin", e[1], a, b)
    return e


def subst_args(e, args):
    """replace ('arg', k, proj...) leaves by args[k] (+ projection) in an expression tree"""
    if not isinstance(e, tuple) or not e:
        return e
    if e[0] == "arg" and e[1] in args:
        a = args[e[1]]
        rest = e[2:]
        if not rest:
            return a
        if a[0] in ("arg", "upvar", "place"):
            return a + rest
        return ("proj", a) + rest
    return tuple(subst_args(x, args) if isinstance(x, tuple) and x and isinstance(x[0], str) else (tuple(subst_args(y, args) for y in x) if isinstance(x, tuple) else x) for x in e)


def inline_calls(facts, e, depth=4, only=None):
    """Replace calls to crate functions whose body is a single straight-line return expression by that expression
    (arguments substituted), recursively.  `only`: optional regex restricting which callees are inlined."""
    if not isinstance(e, tuple) or not e or depth < 0:
        return e
    if e[0] == "call":
        args = tuple(inline_calls(facts, a, depth, only) for a in e[2])
        b = facts.bodies.get(e[1])
        if b is not None and (only is None or re.search(only, e[1])) and not b.coroutine:
            ds = b.defs().get(0, [])
            switches = [bb for bb in b.live_blocks() if b.term(bb)["k"] == "switch"]
            if len(ds) == 1 and not switches:
                ret = expr_of(b, {"cp": [0]}, max_depth=40)
                if ret[0] not in ("?", "place"):
                    sub = subst_args(ret, {i + 1: a for i, a in enumerate(args)})
                    return inline_calls(facts, sub, depth - 1, only)
        return ("call", e[1], args)
    return tuple(inline_calls(facts, x, depth, only) if isinstance(x, tuple) and x and isinstance(x[0], str) else (tuple(inline_calls(facts, y, depth, only) for y in x) if isinstance(x, tuple) else x) for x in e)


def debug_only_blocks(b):
    """Blocks that exist only in builds with debug assertions: those dominated by the `true` edge of a switch on the
    constant that `cfg!(debug_assertions)` expands to (debug_assert!, debug_assert_eq!, `if cfg!(debug_assertions)`).
    The facts are extracted from a dev-profile build, where that constant is `true`; in the shipped (release) build the
    code behind it is gone, so a check that exists only there must not be counted as a guard."""
    dom = b.dominators()
    out = set()
    for bb in b.live_blocks():
        t = b.term(bb)
        if t["k"] != "switch":
            continue
        l = t["o"].get("mv") or t["o"].get("cp") if isinstance(t["o"], dict) else None
        if not l or len(l) != 1:
            continue
        defs = [s_ for _, _, s_ in b.iter_assigns() if s_["p"] == l]
        if len(defs) != 1:
            continue
        d = defs[0]
        if d["r"]["k"] == "use" and isinstance(d["r"]["o"], dict) and "k" in d["r"]["o"] and d["r"]["o"]["k"].get("ty") == "bool" and "cfg" in str(d.get("x", "")):
            ed = switch_edges(b, bb)
            if ed is None:
                continue
            on = ed[1] if str(d["r"]["o"]["k"].get("v")) == "1" else ed[0]
            out |= {x for x in b.live_blocks() if dominates(dom, on, x) and x != bb}
    return out
