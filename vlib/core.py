"""Check harness: obligations, violations, known findings, evidence."""
import json, os, sys, time, importlib, traceback

from . import extract, facts as factsmod

VERIF = extract.VERIF
KNOWN = os.path.join(VERIF, "known_findings.json")


class Ob:
    __slots__ = ("rule", "instance", "ok", "detail", "site", "cfg")

    def __init__(self, rule, instance, ok, detail, site, cfg):
        self.rule, self.instance, self.ok, self.detail, self.site, self.cfg = rule, instance, ok, detail, site, cfg

    def key(self, prop):
        return f"{prop}|{self.rule}|{self.instance}"

    def as_json(self):
        return {"rule": self.rule, "instance": self.instance, "ok": self.ok, "detail": self.detail,
                "site": self.site, "config": self.cfg}


class Ctx:
    def __init__(self, prop, tier, repo=None):
        self.prop = prop
        self.tier = tier
        self.repo = repo or extract.REPO
        self.obs = []
        self._facts = {}
        self.cfg = None
        self.stats = {"bodies_analysed": 0, "call_sites": 0, "configs": []}
        self.rules_text = []
        self.assumptions = []
        self.extract_s = 0.0
        self.tree_hash = None
        self.selftest = None

    def facts(self, cfg=None):
        cfg = cfg or self.cfg
        if cfg not in self._facts:
            path, th, secs = extract.ensure_facts(cfg, self.repo)
            self.extract_s += secs
            self.tree_hash = th
            try:
                f = factsmod.Facts(path)
            except FileNotFoundError:
                # pruned by a concurrent process between the lookup and the read: extract again
                path, th, secs = extract.ensure_facts(cfg, self.repo)
                self.extract_s += secs
                f = factsmod.Facts(path)
            self._facts[cfg] = f
            self.stats["configs"].append({"config": cfg, "bodies": f.meta["bodies"], "cargo": " ".join(extract.CONFIGS[cfg][0]) + ((" [RUSTFLAGS " + extract.CONFIGS[cfg][2] + "]") if len(extract.CONFIGS[cfg]) > 2 else "")})
        return self._facts[cfg]

    # -- obligations ------------------------------------------------------------------------
    def ob(self, rule, instance, ok, detail="", site=None):
        self.obs.append(Ob(rule, instance, bool(ok), detail, site, self.cfg))
        return bool(ok)

    def missing(self, rule, what):
        """Fail-closed: an anchor the rule needs is not in the program any more."""
        self.ob(rule, f"anchor:{what}", False, f"anchor not found: {what} (mechanism removed or restructured; rule fails closed)")

    def floor(self, rule, what, n, minimum):
        self.ob(rule, f"floor:{what}", n >= minimum, f"{what}: matched {n} instance(s), floor {minimum}")

    def rule(self, text):
        if text not in self.rules_text:
            self.rules_text.append(text)

    def assume(self, text):
        if text not in self.assumptions:
            self.assumptions.append(text)

    def count(self, bodies=0, calls=0):
        self.stats["bodies_analysed"] += bodies
        self.stats["call_sites"] += calls


def site_of(body, bb=None, stmt=None):
    """Human-readable location (never part of a key)."""
    ln = body.line
    if bb is not None:
        if stmt is None or stmt == "t":
            t = body.term(bb)
            ln = t.get("cln", t.get("ln", ln))
        else:
            s = body.stmts(bb)[stmt]
            ln = s.get("cln", s.get("ln", ln))
    return f"{body.file}:{ln} in {body.path}" + (f" bb{bb}" if bb is not None else "")


def load_known():
    if not os.path.exists(KNOWN):
        return {"findings": []}
    with open(KNOWN) as fh:
        return json.load(fh)


def _selftest_worker(args):
    """runs a slice of a property's fixtures on its own scratch copy; returns the result rows"""
    import importlib, shutil, subprocess, tempfile
    prop, names = args
    from fixtures import variants
    mod = importlib.import_module(f"rules.{prop}")
    mine = [v for v in variants.VARIANTS if v["prop"] == prop and v["name"] in names]
    scratch = tempfile.mkdtemp(prefix="ipa-verif-scratch-")
    rows = []
    try:
        subprocess.check_call(["rsync", "-a", "--exclude", "target", "--exclude", ".git", extract.REPO + "/", scratch + "/"])
        known = {k["key"] for k in load_known().get("findings", []) if k.get("status") == "open"}
        for v in mine:
            touched = {}
            status = "ran"
            fired = []
            try:
                for e in v["edits"]:
                    path = os.path.join(scratch, e["file"])
                    src = open(path).read()
                    touched.setdefault(path, src)
                    if src.count(e["find"]) != e.get("count", 1):
                        status = "stale-fixture"
                        break
                    open(path, "w").write(src.replace(e["find"], e["replace"]))
                if status == "ran":
                    c2 = Ctx(prop, "quick", repo=scratch)
                    c2.cfg = v.get("cfg", "Q")
                    try:
                        mod.run(c2)
                        fired = sorted({f"{o.rule}|{o.instance}" for o in c2.obs if not o.ok and o.key(prop) not in known})
                    except extract.ExtractError:
                        status = "does-not-compile"
            finally:
                for path, src in touched.items():
                    open(path, "w").write(src)
            if v.get("benign"):
                ok = status == "ran" and not fired
            else:
                exp = v["expect"]
                exp = [exp] if isinstance(exp, str) else exp
                ok = status == "ran" and any(all(x in f for x in exp) for f in fired)
            rows.append({"variant": v["name"], "benign": bool(v.get("benign")), "status": status, "ok": ok, "fired": fired[:4]})
    finally:
        shutil.rmtree(scratch, ignore_errors=True)
    return rows


def selftest_on_scratch(prop, mod):
    """Thorough tier only: run this property's rules on seeded variants of the CURRENT /repo tree (one textual
    edit each, fixtures/variants.py) applied to scratch copies outside /repo and /verif, which are removed afterwards.
    Checks the checker: every non-benign variant must make its expected rule fire, every benign refactor must stay
    silent.  Static analysis of variants; nothing is executed.  A miss is reported in the evidence and on stderr, it is
    not a violation of the property on the unchanged tree.  The variants are spread over a few worker processes
    (VERIF_SELFTEST_JOBS, default 3 = the number of extraction slots), each with its own scratch copy."""
    import multiprocessing
    try:
        from fixtures import variants
    except Exception as e:           # fixtures are optional
        return {"error": str(e)}
    mine = [v for v in variants.VARIANTS if v["prop"] == prop]
    flt = os.environ.get("VERIF_SELFTEST_FILTER")
    if flt:
        mine = [v for v in mine if flt in v["name"]]
    if not mine:
        return {"variants": 0}
    jobs = max(1, min(int(os.environ.get("VERIF_SELFTEST_JOBS", "3")), len(mine)))
    chunks = [[v["name"] for v in mine[k::jobs]] for k in range(jobs)]
    if jobs == 1:
        parts = [_selftest_worker((prop, chunks[0]))]
    else:
        with multiprocessing.get_context("fork").Pool(jobs) as pool:
            parts = pool.map(_selftest_worker, [(prop, c) for c in chunks])
    order = {v["name"]: k for k, v in enumerate(mine)}
    rows = sorted((r for p_ in parts for r in p_), key=lambda r: order.get(r["variant"], 0))
    for r in rows:
        if not r["ok"]:
            print(f"[selftest] {prop} variant {r['variant']}: {'NOT DETECTED' if not r['benign'] else 'FALSE ALARM'} ({r['status']}) fired={r['fired'][:3]}", file=sys.stderr)
    return {"variants": len(rows), "detected": sum(1 for r in rows if r["ok"] and not r["benign"]), "benign_silent": sum(1 for r in rows if r["ok"] and r["benign"]),
            "problems": [r for r in rows if not r["ok"]], "rows": rows}


def alpha_rename_invariance(prop, mod, ctx, cfg):
    """Metamorphic self-test of the rules: the same fact base with every source-level variable name (locals, parameters,
    captures) consistently replaced must give the same verdict for every obligation - a wholesale rename of variables
    changes no behaviour, so a verdict that moves is a rule reading a name (false alarm in waiting, or a blind spot)."""
    base = {(o.rule, o.instance): o.ok for o in ctx.obs if o.cfg == cfg}
    factsmod.ALPHA_RENAME = True
    try:
        c2 = Ctx(prop, "quick", repo=ctx.repo)
        c2.cfg = cfg
        mod.run(c2)
    finally:
        factsmod.ALPHA_RENAME = False
    moved = sorted(f"{o.rule}|{o.instance}" for o in c2.obs if (o.rule, o.instance) in base and base[(o.rule, o.instance)] != o.ok)
    for m in moved:
        print(f"[selftest] {prop} alpha-rename: verdict of {m} depends on a variable name", file=sys.stderr)
    return {"config": cfg, "obligations_compared": sum(1 for o in c2.obs if (o.rule, o.instance) in base), "obligations_renamed_run": len(c2.obs),
            "verdicts_changed": moved}


def run_property(prop, tier, seed=0):
    t0 = time.time()
    mod = importlib.import_module(f"rules.{prop}")
    ctx = Ctx(prop, tier)
    cfgs = list(getattr(mod, "CONFIGS_QUICK", ["Q"]))
    if tier == "thorough":
        cfgs = list(getattr(mod, "CONFIGS_THOROUGH", ["Q", "P", "M", "N"]))
    fatal = None
    try:
        for cfg in cfgs:
            ctx.cfg = cfg
            mod.run(ctx)
        ctx.cfg = None
        if tier == "thorough" and hasattr(mod, "run_thorough"):
            mod.run_thorough(ctx)
        if tier == "thorough" and os.environ.get("VERIF_SELFTEST", "1") != "0":
            ctx.selftest = selftest_on_scratch(prop, mod)
            ctx.selftest["alpha_rename"] = alpha_rename_invariance(prop, mod, ctx, cfgs[0])
    except extract.ExtractError as e:
        fatal = f"fact extraction failed: {e}"
    except Exception:
        fatal = "checker error:\n" + traceback.format_exc()

    known = load_known()
    open_keys = {k["key"]: k for k in known.get("findings", []) if k.get("status") == "open" and k["property"] == prop}
    failed = [o for o in ctx.obs if not o.ok]
    # de-duplicate by key (same instance failing in several configs is one violation)
    seen = {}
    for o in failed:
        seen.setdefault(o.key(prop), o)
    new = {k: o for k, o in seen.items() if k not in open_keys}
    knownhit = {k: o for k, o in seen.items() if k in open_keys}

    for k, o in sorted(knownhit.items()):
        print(f"KNOWN-FINDING: property={prop} {open_keys[k]['what']} [{k}]")
    replay = os.path.join(VERIF, "evidence", "replay", f"{prop}.json")
    os.makedirs(os.path.dirname(replay), exist_ok=True)
    rc = 0
    if fatal:
        print(f"ERROR property={prop}: {fatal}", file=sys.stderr)
        with open(replay, "w") as fh:
            json.dump({"property": prop, "fatal": fatal}, fh, indent=1)
        print(f"VIOLATION property={prop} replay={replay}")
        print(f"  checker could not decide the property: {fatal.splitlines()[0]}")
        rc = 1
    elif new:
        with open(replay, "w") as fh:
            json.dump({"property": prop, "tree_hash": ctx.tree_hash, "violations": [dict(o.as_json(), key=k) for k, o in sorted(new.items())]}, fh, indent=1)
        print(f"VIOLATION property={prop} replay={replay}")
        for k, o in sorted(new.items()):
            print(f"  [{o.rule}] {o.instance}: {o.detail}" + (f"  @ {o.site}" if o.site else "") + (f"  (config {o.cfg})" if o.cfg else ""))
        rc = 1
    else:
        if os.path.exists(replay):
            os.unlink(replay)

    # ---- evidence -------------------------------------------------------------------------
    n_ob = len(ctx.obs)
    n_ok = sum(1 for o in ctx.obs if o.ok)
    distinct = len({(o.rule, o.instance) for o in ctx.obs})
    rules_used = sorted({o.rule for o in ctx.obs})
    samples = []
    per_rule = {}
    for o in ctx.obs:
        per_rule.setdefault(o.rule, 0)
        per_rule[o.rule] += 1
        if len([s for s in samples if s["rule"] == o.rule]) < 3:
            samples.append(o.as_json())
    ev = {
        "property_id": prop,
        "tier": tier,
        "seed": seed,
        "level": getattr(mod, "LEVEL", "other"),
        "coverage": {
            "explanation": "Static analysis of the type-checked program (rustc MIR facts, no execution). " + getattr(mod, "EXPLANATION", ""),
            "rules": ctx.rules_text,
            "obligations": n_ob,
            "discharged": n_ok,
            "evaluations": max(n_ob, 1),
            "distinct_nontrivial": distinct,
            "rule": "one obligation per (rule, instance) found in the current source; an instance is a call site, aggregate site, CFG path, table row or constant named by the rule table; distinct = distinct (rule, instance) keys",
            "obligations_per_rule": per_rule,
            "samples": samples[:40],
            "checker_cmd": f"./check {prop} --tier {tier}",
            "trusted_base": ["rustc nightly front end (type check, MIR build, const eval)", "vlib/*.py rule engine", "rule tables in rules/%s.py" % prop],
            "exhaustive": False,
            "tree_hash": ctx.tree_hash,
            "known_findings_reported": sorted(knownhit),
            "checker_selftest": ctx.selftest,
            **ctx.stats,
        },
        "assumptions": ctx.assumptions,
        "wall_s": round(time.time() - t0, 2),
        "violations": len(new) + (1 if fatal else 0),
    }
    os.makedirs(os.path.join(VERIF, "evidence"), exist_ok=True)
    with open(os.path.join(VERIF, "evidence", f"{prop}.json"), "w") as fh:
        json.dump(ev, fh, indent=1)
    print(f"[{prop}] tier={tier} obligations={n_ob} discharged={n_ok} known={len(knownhit)} new_violations={len(new)} configs={cfgs} wall={ev['wall_s']}s (extract {ctx.extract_s:.1f}s)")
    return rc
