"""BOUNDS: totality of byte-buffer accesses.  Every panic-capable access to a buffer
(slice indexing by constant / range, MIR bounds-check asserts, unwrap/expect/explicit panic) must be
implied by a dominating length guard on the *same* buffer, by a constructor invariant of the owning
struct, or by a recorded type-level discharge.  Linear symbolic bounds: (symbol, offset) where the
symbol is the canonical string of a non-constant expression (named generic const, `position()` result,
...) and named consts are ordered through their definitions (Y = X + c  =>  Y >= X + c)."""
import re
from . import facts as F, flow


class Lin:
    """sym + off, sym None for pure constants"""
    __slots__ = ("sym", "off")

    def __init__(self, sym, off):
        self.sym, self.off = sym, off

    def __repr__(self):
        if self.sym is None:
            return str(self.off)
        s = short_sym(self.sym)
        return s if self.off == 0 else "%s%+d" % (s, self.off)


def short_sym(s):
    m = re.findall(r"([A-Z_]{3,})'?\)?$", s)
    return m[-1] if m else (s[:50] + ("…" if len(s) > 50 else ""))


def lin_of(e):
    """expression tree -> Lin (best effort)"""
    e = flow.strip_casts(e)
    if e[0] == "const":
        if isinstance(e[1], int):
            return Lin(None, e[1])
        return Lin("const:" + str(e[1]), 0)
    if e[0] == "bin" and e[1] in ("Add", "Sub"):
        a, b = lin_of(e[2]), lin_of(e[3])
        if b.sym is None:
            return Lin(a.sym, a.off + (b.off if e[1] == "Add" else -b.off))
        if a.sym is None and e[1] == "Add":
            return Lin(b.sym, b.off + a.off)
    return Lin(str(e), 0)


class ConstOrder:
    """partial order on named consts from their definitions: gap[X][Y] = c means Y >= X + c"""

    def __init__(self, facts):
        self.gap = {}
        self.lb = {}      # name -> constant lower bound
        self._defs = {}
        for path, b in facts.bodies.items():
            if not b.kind.startswith("AssocConst") and not b.kind.startswith("Const"):
                continue
            try:
                e = flow.expr_of(b, {"cp": [0]})
            except Exception:
                continue
            self._learn("const:" + path, e)
        # transitive closure (small)
        changed = True
        while changed:
            changed = False
            for x in list(self.gap):
                for y, c1 in list(self.gap[x].items()):
                    for z, c2 in list(self.gap.get(y, {}).items()):
                        if self.gap[x].get(z, -1) < c1 + c2:
                            self.gap[x][z] = c1 + c2
                            changed = True

    def _terms(self, e):
        """flatten a sum into (named consts, constant, has_other_nonneg_terms)"""
        e = flow.strip_casts(e)
        if e[0] == "bin" and e[1] == "Add":
            a = self._terms(e[2])
            b = self._terms(e[3])
            return a[0] + b[0], a[1] + b[1], a[2] or b[2]
        if e[0] == "const":
            if isinstance(e[1], int):
                return [], e[1], False
            return ["const:" + str(e[1])], 0, False
        return [], 0, True   # some other unsigned term (>= 0)

    def lower(self, name, depth=0):
        if name in self.lb:
            return self.lb[name]
        d = self._defs.get(name)
        if d is None or depth > 8:
            return 0
        names, c, other = d
        v = c + sum(self.lower(n, depth + 1) for n in names)
        self.lb[name] = v
        return v

    def _learn(self, name, e):
        names, c, other = self._terms(e)
        self._defs[name] = (names, c, other)
        for n in names:
            self.gap.setdefault(n, {})
            if self.gap[n].get(name, -1) < c:
                self.gap[n][name] = c

    def ge(self, a, b):
        """is Lin a >= Lin b provable?"""
        if a.sym == b.sym:
            return a.off >= b.off
        if b.sym is None and a.sym is not None:
            # a = sym + off with sym >= its constant lower bound (>= 0 for usize)
            return a.off + self.lower(a.sym) >= b.off
        if a.sym is not None and b.sym is not None:
            g = self.gap.get(b.sym, {}).get(a.sym)
            if g is not None:
                return g + a.off >= b.off
        return False


def buffer_base(b, op_or_expr):
    """canonical identity of a byte buffer: strips Deref::deref / as_ref / borrow wrappers"""
    e = op_or_expr if isinstance(op_or_expr, tuple) else flow.expr_of(b, op_or_expr)
    while True:
        if e[0] == "call" and re.search(r"(Deref::deref|DerefMut::deref_mut|AsRef::as_ref|Borrow::borrow|as_slice|as_bytes)$", e[1]) and e[2]:
            e = e[2][0]
            continue
        if e[0] == "cast":
            e = e[2]
            continue
        break
    return str(e)


class Site:
    def __init__(self, kind, bb, base, need, detail):
        self.kind, self.bb, self.base, self.need, self.detail = kind, bb, base, need, detail


def debug_only_blocks(b):
    """blocks executed only when cfg!(debug_assertions) is true"""
    out = set()
    for bb in b.live_blocks():
        t = b.term(bb)
        if t["k"] == "switch" and "cfg" in t.get("x", "") and flow.expr_of(b, t["o"]) == ("const", 1):
            ed = flow.switch_edges(b, bb)
            if ed:
                with_dbg = b.reachable(ed[1], avoid=frozenset())
                without = b.reachable(ed[0])
                out |= (with_dbg - without)
    return out


def collect_sites(b):
    sites = []
    dbg = debug_only_blocks(b)
    for bb in sorted(b.live_blocks()):
        if bb in dbg:
            continue
        t = b.term(bb)
        if t["k"] == "assert" and t["ak"] == "BoundsCheck":
            len_e = flow.expr_of(b, t["ops"][0])
            idx_e = flow.expr_of(b, t["ops"][1])
            base = None
            if len_e[0] == "un" and len_e[1] == "PtrMetadata":
                base = buffer_base(b, len_e[2])
            i = lin_of(idx_e)
            sites.append(Site("index", bb, base, Lin(i.sym, i.off + 1), "buf[%r]" % i))
        elif t["k"] == "call":
            fn, res, info = F.callee(t)
            fn = fn or ""
            if fn == "std::ops::Index::index" or fn == "std::ops::IndexMut::index_mut":
                if not re.search(r"slice::index|bytes::|Vec<|vec::", res or ""):
                    if not re.search(r"\[u8\]|Bytes|Vec<u8>", info.get("self", "") or ""):
                        continue
                base = buffer_base(b, t["args"][0])
                ie = flow.expr_of(b, t["args"][1])
                if ie[0] == "agg" and isinstance(ie[1], tuple) and ie[1][0] in ("std::ops::Range", "std::ops::RangeTo", "std::ops::RangeInclusive", "std::ops::RangeToInclusive"):
                    hi = lin_of(ie[2][-1])
                    if "Inclusive" in ie[1][0]:
                        hi = Lin(hi.sym, hi.off + 1)
                    sites.append(Site("range", bb, base, hi, "buf[..%r]" % hi))
                elif ie[0] == "agg" and isinstance(ie[1], tuple) and ie[1][0] == "std::ops::RangeFrom":
                    lo = lin_of(ie[2][0])
                    sites.append(Site("range-from", bb, base, lo, "buf[%r..]" % lo))
                elif ie[0] == "agg" and isinstance(ie[1], tuple) and ie[1][0] == "std::ops::RangeFull":
                    pass
                else:
                    i = lin_of(ie)
                    sites.append(Site("index", bb, base, Lin(i.sym, i.off + 1), "buf[%r]" % i))
            elif re.search(r"(Option::<T>::unwrap|Option::<T>::expect|Result::<T, E>::unwrap|Result::<T, E>::expect)$", fn):
                e = flow.expr_of(b, t["args"][0])
                sites.append(Site("unwrap", bb, None, None, "%s on %s" % (fn.split("::")[-1], str(e)[:120])))
            elif re.search(r"(unwrap_or_else)$", fn):
                sites.append(Site("unwrap_or_else", bb, None, None, str(flow.expr_of(b, t["args"][1]))[:80]))
            elif t["t"] is None and not re.search(r"(resume_unwind)$", fn):
                sites.append(Site("panic", bb, None, None, fn))
            elif re.search(r"(slice::<impl \[T\]>::split_at(_mut)?|copy_from_slice|GenericArray::<T, N>::from_slice|generic_array::GenericArray::<T, N>::from_mut_slice)$", fn):
                sites.append(Site("len-sensitive", bb, buffer_base(b, t["args"][0]), None, fn.split("::")[-1]))
    return sites


def guard_facts(b, consts):
    """[(edge_target_bb, base, Lin lower bound on len, 'ge'|'eq', guard_bb)] from switches comparing a
    buffer length with a bound, or is_empty()"""
    out = []
    for bb in sorted(b.live_blocks()):
        t = b.term(bb)
        if t["k"] != "switch":
            continue
        ed = flow.switch_edges(b, bb)
        if ed is None:
            continue
        e = flow.expr_of(b, t["o"])
        neg = False
        while e[0] == "un" and e[1] == "Not":
            neg, e = not neg, e[2]
        zero, nonzero = ed
        if neg:
            zero, nonzero = nonzero, zero
        if e[0] == "call" and re.search(r"is_empty$", e[1]) and e[2]:
            out.append((zero, buffer_base(b, e[2][0]), Lin(None, 1), "ge", bb))
            continue
        if e[0] != "bin" or e[1] not in ("Lt", "Le", "Gt", "Ge", "Eq", "Ne"):
            continue

        def len_base(x):
            x = flow.strip_casts(x)
            if x[0] == "call" and re.search(r"(::len)$", x[1]) and x[2]:
                return buffer_base(b, x[2][0])
            if x[0] == "un" and x[1] == "PtrMetadata":
                return buffer_base(b, x[2])
            return None
        op, l, r = e[1], e[2], e[3]
        lb, rb = len_base(l), len_base(r)
        if lb is None and rb is not None:
            # K op len  ->  len op' K
            op = {"Lt": "Gt", "Le": "Ge", "Gt": "Lt", "Ge": "Le", "Eq": "Eq", "Ne": "Ne"}[op]
            l, r, lb = r, l, rb
        if lb is None:
            continue
        k = lin_of(r)
        if op == "Lt":      # len < K : false edge => len >= K
            out.append((zero, lb, k, "ge", bb))
        elif op == "Le":    # len <= K : false => len >= K+1
            out.append((zero, lb, Lin(k.sym, k.off + 1), "ge", bb))
        elif op == "Ge":    # true => len >= K
            out.append((nonzero, lb, k, "ge", bb))
        elif op == "Gt":
            out.append((nonzero, lb, Lin(k.sym, k.off + 1), "ge", bb))
        elif op == "Eq":
            out.append((nonzero, lb, k, "ge", bb))
        elif op == "Ne":
            out.append((zero, lb, k, "ge", bb))
    return out


def mutators(b, base):
    """blocks that may shrink the buffer `base` (calls taking it by &mut: advance, truncate, split_*, clear)"""
    out = set()
    for bb, t in b.calls():
        fn = F.callee(t)[0] or ""
        if re.search(r"(advance|truncate|split_to|split_off|clear|drain|pop|remove)$", fn) and t["args"]:
            if buffer_base(b, t["args"][0]) == base:
                out.add(bb)
    return out
