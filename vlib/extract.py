"""Fact extraction: runs the ipa-facts rustc driver over /repo's *current working tree*
(cargo +nightly check, no code of ipa-core is executed) and caches the resulting fact file
under /verif/.cache/facts/<tree-hash>-<config>.jsonl.  Any edit to /repo changes the hash."""
import fcntl, glob, hashlib, os, shutil, subprocess, sys, time

VERIF = os.path.dirname(os.path.dirname(os.path.abspath(__file__)))
REPO = os.environ.get("IPA_REPO", "/repo")
CACHE = os.path.join(VERIF, ".cache")
SLOTS = 3
DRIVER = os.path.join(VERIF, "driver", "target", "release", "ipa-facts")

CONFIGS = {
    # name: (cargo args, min bodies)
    "Q": (["-p", "ipa-core", "--lib", "--features", "cli test-fixture"], 6000),
    "P": (["-p", "ipa-core", "--lib", "--no-default-features", "--features",
           "cli web-app real-world-infra compact-gate test-fixture stall-detection"], 5500),
    "M": (["-p", "ipa-core", "--lib", "--features", "cli test-fixture multi-threading"], 6000),
    # the feature set CI tests and the helper image ships (docker/helper.Dockerfile): no stall-detection, so the
    # `#[cfg(not(feature = "stall-detection"))]` siblings in helpers/buffers and helpers/gateway are compiled
    "N": (["-p", "ipa-core", "--lib", "--no-default-features", "--features",
           "cli web-app real-world-infra compact-gate test-fixture"], 5500),
    # the default features built the way CI's release / extra / slow jobs build them (`-C target-cpu=native` on x86_64):
    # with the pclmulqdq target feature the hardware carry-less multiplication in ff::galois_field replaces the portable loop
    "X": (["-p", "ipa-core", "--lib", "--features", "cli test-fixture"], 6000, "-C target-feature=+pclmulqdq"),
}

SRC_DIRS = ["ipa-core", "ipa-step", "ipa-step-derive", "ipa-step-test", "ipa-metrics",
            "ipa-metrics-tracing", "ipa-metrics-prometheus"]
SRC_EXT = (".rs", ".toml", ".lock", ".json")


def tree_hash(repo=REPO):
    h = hashlib.sha256()
    files = []
    for top in ("Cargo.toml", "Cargo.lock"):
        p = os.path.join(repo, top)
        if os.path.exists(p):
            files.append(p)
    for d in SRC_DIRS:
        base = os.path.join(repo, d)
        for root, dirs, fs in os.walk(base):
            dirs[:] = sorted(x for x in dirs if x not in ("target", ".git"))
            for f in sorted(fs):
                if f.endswith(SRC_EXT):
                    files.append(os.path.join(root, f))
    for p in files:
        h.update(os.path.relpath(p, repo).encode())
        h.update(b"\0")
        with open(p, "rb") as fh:
            h.update(hashlib.sha256(fh.read()).digest())
    with open(DRIVER, "rb") as fh:
        h.update(hashlib.sha256(fh.read()).digest())
    return h.hexdigest()[:24], len(files)


def sysroot():
    return subprocess.check_output(["rustc", "+nightly", "--print", "sysroot"], text=True).strip()


def ensure_driver():
    if not os.path.exists(DRIVER):
        subprocess.check_call(["cargo", "+nightly", "build", "--release", "--offline"],
                              cwd=os.path.join(VERIF, "driver"))


class ExtractError(Exception):
    pass


def ensure_facts(cfg="Q", repo=REPO, quiet=False):
    """Returns (path to fact file, tree hash, seconds spent extracting (0 if cached))."""
    ensure_driver()
    os.makedirs(os.path.join(CACHE, "facts"), exist_ok=True)
    th, nfiles = tree_hash(repo)
    out = os.path.join(CACHE, "facts", f"{th}-{cfg}.jsonl")
    if os.path.exists(out):
        try:
            os.utime(out, None)           # in use: keep it among the most recent ones for the pruning
        except OSError:
            pass
        return out, th, 0.0
    # a configuration has up to SLOTS build directories, so that several processes (the parallel self-test) can extract
    # at the same time; slot k > 0 starts as a copy of slot 0's dependency build instead of compiling it again
    lock = None
    slot = 0
    for k in range(SLOTS):
        cand = open(os.path.join(CACHE, f"lock-{cfg}" + (f".{k}" if k else "")), "w")
        try:
            fcntl.flock(cand, fcntl.LOCK_EX | fcntl.LOCK_NB)
            lock, slot = cand, k
            break
        except OSError:
            cand.close()
    if lock is None:
        lock = open(os.path.join(CACHE, f"lock-{cfg}"), "w")
        fcntl.flock(lock, fcntl.LOCK_EX)
        slot = 0
    try:
        if os.path.exists(out):
            try:
                os.utime(out, None)       # in use: keep it among the most recent ones for the pruning below
            except OSError:
                pass
            return out, th, 0.0
        t0 = time.time()
        args, min_bodies = CONFIGS[cfg][:2]
        extra_flags = CONFIGS[cfg][2] if len(CONFIGS[cfg]) > 2 else ""
        target = os.path.join(CACHE, "target", cfg + (f".{slot}" if slot else ""))
        base = os.path.join(CACHE, "target", cfg)
        if slot and not os.path.isdir(target) and os.path.isdir(os.path.join(base, "debug", "deps")):
            subprocess.run(["cp", "-a", "--reflink=auto", base, target], check=False)
        tmp_out = os.path.join(CACHE, "out", f"{cfg}-{os.getpid()}")
        shutil.rmtree(tmp_out, ignore_errors=True)
        os.makedirs(tmp_out)
        # cargo's freshness cache would skip the wrapper: always force ipa-core itself
        for fp in glob.glob(os.path.join(target, "debug", ".fingerprint", "ipa-core-*")):
            shutil.rmtree(fp, ignore_errors=True)
        env = dict(os.environ)
        env.update({
            "LD_LIBRARY_PATH": sysroot() + "/lib",
            "CARGO_INCREMENTAL": "0",
            "CARGO_NET_OFFLINE": "true",
            "RUSTFLAGS": ("-Zmir-opt-level=0 -Awarnings " + extra_flags).strip(),
            "RUSTC_WORKSPACE_WRAPPER": DRIVER,
            "IPA_FACTS_OUT": tmp_out,
            "IPA_FACTS_TAG": cfg,
            "CARGO_TARGET_DIR": target,
        })
        env.pop("RUSTC_WRAPPER", None)
        cmd = ["cargo", "+nightly", "check", "--offline", "--locked"] + args
        p = subprocess.run(cmd, cwd=repo, env=env, stdout=subprocess.PIPE, stderr=subprocess.STDOUT, text=True)
        if p.returncode != 0:
            tail = "\n".join(l[:300] for l in p.stdout.splitlines()[-40:])
            raise ExtractError(f"cargo check failed for config {cfg} (the tree does not compile?)\n{tail}")
        got = glob.glob(os.path.join(tmp_out, "ipa_core.*.jsonl"))
        if len(got) != 1:
            raise ExtractError(f"expected exactly one ipa_core fact file, got {got} (driver skipped?)")
        with open(got[0], "rb") as fh:
            fh.seek(max(0, os.path.getsize(got[0]) - 20000))
            last = fh.read().splitlines()[-1]
        import json
        meta = json.loads(last)
        if meta.get("rec") != "meta" or meta["b"]["bodies"] < min_bodies or meta["b"]["failed"] != 0:
            raise ExtractError(f"incomplete fact file: {last[:300]!r}")
        os.replace(got[0], out)
        shutil.rmtree(tmp_out, ignore_errors=True)
        # bound the cache: keep the 6 most recent fact files
        # (several processes prune concurrently - self-test workers, checks run side by side: a file may vanish between
        # the listing and the stat / unlink)
        def _mtime(f):
            try:
                return os.path.getmtime(f)
            except OSError:
                return 0.0
        olds = sorted(glob.glob(os.path.join(CACHE, "facts", "*.jsonl")), key=_mtime)
        for o in olds[:-24]:
            if o != out:
                try:
                    os.unlink(o)
                except OSError:
                    pass
        if not quiet:
            print(f"[extract] config {cfg}: {meta['b']['bodies']} bodies from {nfiles} source files in {time.time()-t0:.1f}s", file=sys.stderr)
        return out, th, time.time() - t0
    finally:
        fcntl.flock(lock, fcntl.LOCK_UN)
        lock.close()


if __name__ == "__main__":
    for c in (sys.argv[1:] or ["Q"]):
        print(ensure_facts(c))
